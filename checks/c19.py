"""C19 - auto-started services get held messages once, in order, or callers get errors."""
import json
import os
import shutil
import signal
import stat
import subprocess
import tempfile
import time

from vf import build, busproc, client, gen, hrun, namegen, report, wire
from vf.models import activation as am

PROP = "C19"
RULE = ("daemon part: fresh ASan bus per history with a generated <servicedir> of 2..4 activatable names whose Exec runs "
        "vf/service_stub.py with a behaviour (takes the name at once / after a delay / after connecting late / never / takes "
        "another name / exits with status 0, non-zero or a signal before or after connecting / Exec missing) and a short "
        "service_start_timeout; 2..5 raw senders fire bursts of method calls, unicast signals (default flags = auto-start) "
        "and StartServiceByName at the same and at different names, either chunk-interleaved over all sockets or sender by "
        "sender with barriers (which establishes a cross-sender order), again while the start is pending; each round ends with one "
        "more StartServiceByName per name whose answer marks the end of the start. Departure rounds: waiters join a pending "
        "start one by one with a driver round-trip after each (arrival order known), one or two of them - not the last - close "
        "their sockets, the bus announces them gone, and only then does the start end (gated stub: takes the name / exits when "
        "the check creates a go-file; or the start timeout): every surviving waiter must still get its delivery or exactly one "
        "error, the departed are not judged. Judged: every call "
        "and StartServiceByName answered exactly once (service reply / code 1 or 2 / error); delivered XOR error; nothing is "
        "delivered and every caller gets an error when the name is never taken; delivery exactly once, per-sender order and "
        "barrier-established global order at the service; process-start log vs the bus's activation log (no second start "
        "while one is pending, starts <= 1 + errors seen); bounded progress = service_start_timeout + watchdog. "
        "helper part: dbus-daemon-launch-helper-for-tests <arg> with generated system-style configs (1..3 <servicedir>, <user>) "
        "and service files (good / variants / quoted Exec / mismatching Name / missing Name, Exec, User / wrong group / broken / "
        "duplicates across directories) and arguments (valid, unique-style, grammar-invalid, path-like incl. traversal to an "
        "existing file, over-long, option-like); Exec target writes a marker. Oracle vf/models/activation.py "
        "(may_exec / must_exec). distinct = (behaviour, message kind, outcome, write mode) resp. (argument class, reason, "
        "directory pattern, executed)")

ACT_IFACE = b"com.example.Act"
ACT_PATH = b"/com/example/Act"
STUB = os.path.join(os.path.dirname(os.path.dirname(os.path.abspath(__file__))), "vf", "service_stub.py")
PYTHON = "/usr/bin/python3"

SUCCESS = ("quick", "delay", "delay-connect")
NOC_RULE = b"type='signal',sender='org.freedesktop.DBus',interface='org.freedesktop.DBus',member='NameOwnerChanged'"


def behaviour_class(beh):
    kind, _, arg = beh.partition(":")
    pre = ""
    if kind.startswith("gate-"):
        pre, kind = "gate-", kind[5:]
    if kind in ("exit-before", "exit-after"):
        n = int(arg)
        return "%s%s-%s" % (pre, kind, "0" if n == 0 else ("sig" if n < 0 else "n"))
    return pre + kind


def is_gated(beh):
    return beh.startswith("gate-")


def never_owns(beh):
    kind = beh.partition(":")[0]
    if kind.startswith("gate-"):
        kind = kind[5:]
    return kind not in SUCCESS


def is_slow(beh):
    """fails only through the start timeout"""
    k = behaviour_class(beh)
    return k in ("never", "other", "exit-before-0", "exit-after-0")


def pick_behaviour(rng, allow_slow):
    r = rng.random()
    if r < 0.26:
        return "quick"
    if r < 0.37:
        return "delay:%d" % rng.randint(60, 400)
    if r < 0.43:
        return "delay-connect:%d" % rng.randint(40, 300)
    if r < 0.50:
        return "exit-before:%d" % rng.choice([1, 2, 77, 127, 255, -9, -15])
    if r < 0.57:
        return "exit-after:%d" % rng.choice([1, 3, 99, 255, -9, -15])
    if r < 0.62:
        return "exec-missing"
    if r < 0.70:
        return "gate-quick"
    if r < 0.78:
        return "gate-exit-before:%d" % rng.choice([1, 2, 255, -9, -15])
    if r < 0.86:
        return "gate-exit-after:%d" % rng.choice([1, 3, 99, -9, -15])
    if not allow_slow:
        return rng.choice(["quick", "gate-exit-before:1", "gate-exit-after:2", "gate-quick"])
    return rng.choice(["never", "never", "other", "other", "exit-before:0", "exit-after:0"])


class Msg(object):
    __slots__ = ("sender", "kind", "name", "token", "serial", "data", "epoch", "seq", "round", "judged")


class StubLog(object):
    """Parsed log of all processes started for one name."""

    def __init__(self, path):
        self.instances = []
        try:
            with open(path, "rb") as fh:
                lines = fh.read().decode("latin1").split("\n")
        except OSError:
            lines = []
        cur = None
        for ln in lines:
            f = ln.split(" ")
            if f[0] == "started" and len(f) >= 2:
                cur = {"pid": int(f[1]) if f[1].isdigit() else -1, "unique": None, "acquired": None, "msgs": [], "other": []}
                self.instances.append(cur)
            elif cur is None:
                continue
            elif f[0] == "connected" and len(f) >= 2:
                cur["unique"] = f[1].encode()
            elif f[0] == "acquired" and len(f) >= 3:
                cur["acquired"] = (f[1].encode(), f[2])
            elif f[0] == "msg" and len(f) >= 7:
                try:
                    cur["msgs"].append((int(f[1]), int(f[2]), f[3].encode(), int(f[4]), f[5], " ".join(f[6:])))
                except ValueError:
                    cur["other"].append(ln)
            elif ln:
                cur["other"].append(ln)

    @property
    def starts(self):
        return len(self.instances)

    def pids(self):
        return [i["pid"] for i in self.instances if i["pid"] > 0]


class History(object):
    def __init__(self, b, rundir, rng, part, hid):
        self.b, self.rundir, self.rng, self.part, self.hid = b, rundir, rng, part, hid
        self.clock = client.Clock()
        self.steps = []
        self.daemon = None
        self.senders = []
        self.names = {}        # name (bytes) -> behaviour
        self.msgs = []
        self.epoch = 0
        self.ntok = 0
        self.config = None
        self.service_files = {}
        self.cur = "start"
        self.activated = set()
        self.obs = None
        self.departers = []

    # -------------------------------------------------------------- plumbing
    def witness(self, extra=None):
        w = {"part": "daemon", "history": self.hid, "config": self.config, "service_files": self.service_files,
             "steps": self.steps[-80:]}
        if extra:
            w.update(extra)
        return w

    def violation(self, key, what, extra=None):
        self.part.violation("%s:%s" % (PROP, key), what, self.witness(extra))

    def logpath(self, name):
        return os.path.join(self.rundir, "logs", name.decode() + ".log")

    def setup(self):
        rng = self.rng
        os.makedirs(self.rundir, exist_ok=True)
        os.chmod(self.rundir, 0o755)
        svcdir = os.path.join(self.rundir, "services")
        os.makedirs(svcdir)
        os.makedirs(os.path.join(self.rundir, "logs"))
        n = rng.randint(2, 4)
        nslow = 0
        for i in range(n):
            name = ("com.example.Svc%d" % (i + 1)).encode()
            beh = pick_behaviour(rng, allow_slow=(nslow < 1))
            if is_slow(beh):
                nslow += 1
            self.names[name] = beh
            if beh == "exec-missing":
                # distinct per name: the bus fails every pending activation that has the same Exec string together
                ex = os.path.join(self.rundir, "no-such-program-%d" % (i + 1)) + " x"
            else:
                ex = "%s %s %s %s %s" % (PYTHON, STUB, beh, name.decode(), self.logpath(name))
            # Exec is split with shell rules (bus/activation.c: _dbus_shell_parse_argv); the generated paths contain no
            # blanks, quotes or backslashes, one argument is quoted to exercise the splitter
            if rng.random() < 0.3 and beh != "exec-missing":
                ex = '%s "%s" \'%s\' %s %s' % (PYTHON, STUB, beh, name.decode(), self.logpath(name))
            text = "[D-BUS Service]\nName=%s\nExec=%s\n" % (name.decode(), ex)
            with open(os.path.join(svcdir, name.decode() + ".service"), "w") as fh:
                fh.write(text)
            self.service_files[name.decode()] = text
        self.T = rng.choice([1200, 1500])
        limits = {"service_start_timeout": self.T}
        # In half of the histories the bus-wide limit on pending starts is small, but always larger than the number of
        # requests one round can have waiting (at most 5 senders x 3 messages x 2 batches + one probe per name, and
        # every round ends only when all its waiters have their outcome): LimitsExceeded must therefore never be seen.
        # A bus that miscounts finished activations runs into the limit after a few rounds.
        self.start_limit = rng.choice([None, 40, 48])
        if self.start_limit:
            limits["max_pending_service_starts"] = self.start_limit
        cfg = busproc.make_config("@SOCK@", servicedirs=[svcdir], limits=limits)
        self.daemon = busproc.Daemon(self.b, self.rundir, cfg, name="h")
        self.config = self.daemon.config_text
        if not self.daemon.started():
            raise RuntimeError("daemon did not start: " + self.daemon.stderr_text()[-500:])
        self.obs = client.connect(self.daemon.sock, self.clock)
        self.obs.bus_call(b"AddMatch", b"s", [NOC_RULE])
        for i in range(rng.randint(2, 5)):
            self.senders.append(client.connect(self.daemon.sock, self.clock))
        self.steps.append("services: %s; service_start_timeout=%d ms; senders: %s" % (
            ", ".join("%s=%s" % (k.decode(), v) for k, v in sorted(self.names.items())), self.T,
            " ".join(c.unique.decode() for c in self.senders)))

    # -------------------------------------------------------------- sending
    def make_msg(self, si, kind, name):
        c = self.senders[si]
        m = Msg()
        m.sender, m.kind, m.name = si, kind, name
        self.ntok += 1
        m.token = ("t%d-%d" % (self.hid, self.ntok)).encode()
        if kind == "call":
            m.serial, m.data = c.build(1, path=ACT_PATH, iface=ACT_IFACE, member=b"Call", dest=name, sig=b"s", body=[m.token])
        elif kind == "signal":
            m.serial, m.data = c.build(4, path=ACT_PATH, iface=ACT_IFACE, member=b"Sig", dest=name, sig=b"s", body=[m.token])
        else:
            # "start-noreply": StartServiceByName flagged NO_REPLY_EXPECTED joins the activation like any other waiter,
            # gets no success reply, and must not disturb the waiters queued behind it
            m.serial, m.data = c.build(1, path=client.BUS_PATH, iface=client.BUS, member=b"StartServiceByName",
                                       dest=client.BUS, sig=b"su", body=[name, 0], flags=1 if kind == "start-noreply" else 0)
        m.epoch = self.epoch
        m.seq = len([x for x in self.msgs if x.sender == si])
        m.judged = False
        self.msgs.append(m)
        return m

    def gen_batch(self, targets):
        rng = self.rng
        out = []
        for si in range(len(self.senders)):
            if rng.random() < 0.15 and out:
                continue
            for _ in range(rng.randint(1, 3)):
                kind = rng.choice(["call"] * 4 + ["signal"] * 3 + ["start"] * 3 + ["start-noreply"])
                out.append(self.make_msg(si, kind, rng.choice(targets)))
        return out

    def barrier_all(self, who=None):
        for i, c in enumerate(self.senders):
            if who is None or i in who:
                c.barrier()
        self.epoch += 1

    def send(self, si, data):
        try:
            self.senders[si].send_bytes(data)
        except OSError:
            raise client.Closed("send failed")

    def write_interleaved(self, batch):
        """All senders' byte streams cut into chunks, chunks written in a random interleaving."""
        rng = self.rng
        streams = {}
        for m in batch:
            m.epoch = self.epoch
            streams.setdefault(m.sender, bytearray()).extend(m.data)
        pend = {}
        for si, data in streams.items():
            chunks = []
            off = 0
            while off < len(data):
                n = rng.choice([1, 7, 16, 33, 64, 200, len(data)])
                chunks.append(bytes(data[off:off + n]))
                off += n
            pend[si] = chunks
        nchunks = sum(len(v) for v in pend.values())
        while pend:
            si = rng.choice(sorted(pend))
            self.send(si, pend[si].pop(0))
            if not pend[si]:
                del pend[si]
        self.steps.append("burst (interleaved, %d chunks, epoch %d): %s" % (nchunks, self.epoch, self.describe(batch)))
        self.barrier_all(set(streams))

    def write_waves(self, batch):
        rng = self.rng
        order = sorted(set(m.sender for m in batch))
        rng.shuffle(order)
        for si in order:
            mine = [m for m in batch if m.sender == si]
            for m in mine:
                m.epoch = self.epoch
                self.send(si, m.data)
            self.steps.append("wave (epoch %d): %s" % (self.epoch, self.describe(mine)))
            self.barrier_all({si})

    def describe(self, batch):
        return "; ".join("%s#%d %s->%s" % (self.senders[m.sender].unique.decode(), m.serial, m.kind, m.name.decode()[12:])
                         for m in batch)

    # -------------------------------------------------------------- one round
    def round(self, rno):
        rng = self.rng
        names = sorted(self.names)
        fresh = [n for n in names if n not in self.activated]
        pool = fresh if fresh and rng.random() < 0.8 else names
        targets = [rng.choice(pool)]
        if rng.random() < 0.45:
            others = [n for n in names if n != targets[0] and not (is_slow(self.names[n]) and is_slow(self.names[targets[0]]))]
            if others:
                targets.append(rng.choice(others))
        self.cur = "+".join(sorted(set(behaviour_class(self.names[t]) for t in targets)))
        mode = rng.choice(["interleaved", "interleaved", "waves", "mixed"])
        batch = self.gen_batch(targets)
        for m in batch:
            m.round = rno
        if mode == "waves":
            self.write_waves(batch)
        else:
            self.write_interleaved(batch)
        allb = list(batch)
        for t in targets:
            self.open_gate(t)
        if mode == "mixed" or rng.random() < 0.3:
            # a second burst while the start is (probably) still pending
            if rng.random() < 0.5:
                time.sleep(rng.choice([0.0, 0.02, 0.1]))
            b2 = self.gen_batch(targets)
            for m in b2:
                m.round = rno
            if rng.random() < 0.5:
                self.write_waves(b2)
            else:
                self.write_interleaved(b2)
            allb += b2
        # one more StartServiceByName per target, sent last: its answer arrives when the start it joined (or caused) has
        # succeeded or failed, so that rounds consisting of signals only are judged after their outcome exists as well
        probes = [self.make_msg(0, "start", t) for t in targets]
        for m in probes:
            m.round = rno
            m.epoch = self.epoch
            self.send(0, m.data)
        self.steps.append("settle probes (epoch %d): %s" % (self.epoch, self.describe(probes)))
        self.barrier_all({0})
        allb += probes
        # bounded progress: every waiter has its outcome within service_start_timeout + watchdog
        deadline = time.time() + self.T / 1000.0 + client.WATCHDOG
        for m in allb:
            if m.kind in ("call", "start"):
                left = deadline - time.time()
                self.senders[m.sender].wait_reply(m.serial, timeout=max(0.05, left))
        for c in self.senders:
            c.barrier()
        self.epoch += 1
        self.sync_services(targets)
        self.judge(allb, mode)
        for t in targets:
            self.activated.add(t)

    def open_gate(self, name):
        if is_gated(self.names[name]):
            with open(self.logpath(name) + ".go", "w"):
                pass

    def close_gate(self, name):
        try:
            os.unlink(self.logpath(name) + ".go")
        except OSError:
            pass

    def await_gone(self, unique):
        while True:
            rec = self.obs.recv(timeout=client.WATCHDOG)
            m = rec.msg
            if m.type == 4 and m.known().get(3) == b"NameOwnerChanged" and m.known().get(7) == b"org.freedesktop.DBus" \
                    and len(m.body) == 3 and m.body[0] == unique and m.body[2] == b"":
                break
        self.obs.barrier()
        self.obs.take_inbox()

    def departure_candidates(self):
        return [n for n in sorted(self.names) if is_gated(self.names[n]) or is_slow(self.names[n])]

    def departure_round(self, rno, t):
        """Waiters join a pending start one by one (driver round-trip after each: arrival order known); one or two of them,
        not the last, close their sockets while the start is still pending; only then is the start allowed to end.
        Every surviving waiter must still get its delivery or its error; the departed ones are not judged."""
        rng = self.rng
        beh = self.names[t]
        bc = behaviour_class(beh)
        self.cur = "departure+" + bc
        self.close_gate(t)
        n_wait = rng.randint(3, 6)
        n_dep = 1 if rng.random() < 0.75 else 2
        # positions of the departing waiters: never the last; mostly behind at least one survivor
        lo = 1 if rng.random() < 0.8 else 0
        pos = sorted(rng.sample(range(lo, n_wait - 1), min(n_dep, n_wait - 1 - lo)))
        survivors, departed = [], []
        desc = []
        for i in range(n_wait):
            kind = rng.choice(["call", "call", "signal", "start", "start"])
            if i == 0 and 0 not in pos:
                kind = rng.choice(["call", "start"])       # the first survivor's answer tells us that the start has ended
            if i in pos:
                d = client.connect(self.daemon.sock, self.clock)
                self.departers.append(d)
                if kind == "call":
                    _, data = d.build(1, path=ACT_PATH, iface=ACT_IFACE, member=b"Call", dest=t, sig=b"s", body=[b"departed"])
                elif kind == "signal":
                    _, data = d.build(4, path=ACT_PATH, iface=ACT_IFACE, member=b"Sig", dest=t, sig=b"s", body=[b"departed"])
                else:
                    _, data = d.build(1, path=client.BUS_PATH, iface=client.BUS, member=b"StartServiceByName", dest=client.BUS,
                                      sig=b"su", body=[t, 0])
                try:
                    d.send_bytes(data)
                except OSError:
                    raise client.Closed("send failed")
                d.barrier()
                self.epoch += 1
                departed.append(d)
                desc.append("%s(departs) %s" % (d.unique.decode(), kind))
            else:
                si = rng.randrange(len(self.senders))
                m = self.make_msg(si, kind, t)
                m.round = rno
                m.epoch = self.epoch
                self.send(si, m.data)
                self.barrier_all({si})
                survivors.append(m)
                desc.append("%s#%d %s" % (self.senders[si].unique.decode(), m.serial, kind))
        # the settle probe is the last waiter
        probe = self.make_msg(0, "start", t)
        probe.round = rno
        probe.epoch = self.epoch
        self.send(0, probe.data)
        self.barrier_all({0})
        survivors.append(probe)
        desc.append("%s#%d start(probe)" % (self.senders[0].unique.decode(), probe.serial))
        self.steps.append("departure round on %s (%s): waiters in arrival order: %s" % (t.decode(), beh, "; ".join(desc)))
        for d in departed:
            u = d.unique
            d.close()
            self.await_gone(u)
        self.steps.append("  departed waiters closed and announced gone by the bus; start released now")

        def answered(m):
            c = self.senders[m.sender]
            return [r for r in c.log if r.msg.type in (2, 3) and r.msg.known().get(5) == m.serial]

        for c in self.senders:
            c.pump()
        all_pending = not any(answered(m) for m in survivors)
        self.part.count("departure-rounds")
        self.part.count("departure-rounds:" + ("all-waiters-pending-at-release" if all_pending else "start-ended-early"))
        self.open_gate(t)
        deadline = time.time() + self.T / 1000.0 + client.WATCHDOG
        waitable = [m for m in survivors if m.kind in ("call", "start")]
        first = waitable[0]
        r0 = self.senders[first.sender].wait_reply(first.serial, timeout=max(0.05, deadline - time.time()))
        self.senders[first.sender].inbox.insert(0, r0)
        failed = r0.msg.type == 3 and r0.msg.known().get(7) == b"org.freedesktop.DBus"
        starved = []
        if failed and all_pending:
            # All survivors were waiting in the one pending start of this name when it was released, and the bus has now
            # told one of them that it failed.  Errors for all waiters are sent together; after a round-trip of each
            # sender every surviving waiter therefore has its error.
            self.part.count("departure-rounds:failed-start")
            for c in self.senders:
                c.barrier()
            for m in survivors:
                c = self.senders[m.sender]
                n = len([r for r in c.log if r.msg.type == 3 and r.msg.known().get(5) == m.serial])
                if n == 0 and not answered(m):
                    starved.append(m)
                    self.violation("waiter-without-error-after-failed-start:%s:%s" % (m.kind, bc),
                                   "the start of %s failed (the first surviving waiter got %s), but the surviving waiter %s#%d (%s), "
                                   "queued behind a waiter that had disconnected, received nothing"
                                   % (t.decode(), (r0.msg.known().get(4) or b"?").decode(), c.unique.decode(), m.serial, m.kind))
                else:
                    self.part.count("survivors-answered-after-departure")
        else:
            if not failed:
                self.part.count("departure-rounds:successful-start")
            for m in waitable:
                self.senders[m.sender].wait_reply(m.serial, timeout=max(0.05, deadline - time.time()))
                self.part.count("survivors-answered-after-departure")
        for c in self.senders:
            c.barrier()
        self.epoch += 1
        self.sync_services([t])
        self.judge([m for m in survivors if m not in starved], "departure")
        self.part.sig("departure", bc, "failed" if failed else "succeeded", len(pos), pos[0] if pos else -1)
        self.activated.add(t)

    def owner(self, name):
        r = self.senders[0].bus_call(b"GetNameOwner", b"s", [name])
        return r.msg.body[0] if r.msg.type == 2 else None

    def sync_services(self, targets):
        """A call that the service answers proves that everything delivered to it before is in its log."""
        self.owned = {}
        for t in targets:
            o = self.owner(t)
            self.owned[t] = o
            via = t if o else None
            if self.names[t] == "other" and self.owner(t + b".Other"):
                via = t + b".Other"
            if via:
                c = self.senders[0]
                c.call(via, ACT_PATH, ACT_IFACE, b"Sync", b"s", [b"sync"], timeout=client.WATCHDOG)
                self.part.count("service-syncs")

    # -------------------------------------------------------------- judgement
    def deliveries(self):
        """(sender unique, serial) -> list of (log name, instance number, arrival index)"""
        out = {}
        self.logs = {}
        for name in self.names:
            lg = StubLog(self.logpath(name))
            self.logs[name] = lg
            for ino, inst in enumerate(lg.instances):
                for (idx, mtype, sender, serial, member, tok) in inst["msgs"]:
                    if member == "Sync":
                        continue
                    out.setdefault((sender, serial), []).append((name, ino, idx))
        return out

    def judge(self, batch, mode):
        dl = self.deliveries()
        for m in batch:
            c = self.senders[m.sender]
            beh = self.names[m.name]
            bc = behaviour_class(beh)
            replies = [r for r in c.log if r.msg.type in (2, 3) and r.msg.known().get(5) == m.serial]
            rets = [r for r in replies if r.msg.type == 2]
            errs = [r for r in replies if r.msg.type == 3]
            got = dl.get((c.unique, m.serial), [])
            wrong = [g for g in got if g[0] != m.name]
            if wrong:
                self.violation("delivered-to-wrong-service:%s" % m.kind, "%s for %s was delivered to the process started for %s"
                               % (m.kind, m.name.decode(), wrong[0][0].decode()))
            nd = len(got)
            self.part.evaluations += 1
            m.judged = True
            if any(r.msg.known().get(4) == b"org.freedesktop.DBus.Error.LimitsExceeded" for r in errs):
                self.violation("limits-exceeded-with-few-pending-starts:%s" % m.kind,
                               "%s to %s was refused with LimitsExceeded although at most %d requests can be waiting for a start "
                               "(max_pending_service_starts=%s)" % (m.kind, m.name.decode(), len(batch), self.start_limit or "default"))
            outcome = "?"
            if m.kind in ("call", "start"):
                if len(replies) != 1:
                    self.violation("answered-%d-times:%s:%s" % (len(replies), m.kind, bc),
                                   "%s to %s (%s) received %d replies: %r" % (m.kind, m.name.decode(), beh, len(replies), replies[:3]))
                if never_owns(beh) and rets:
                    self.violation("success-without-owner:%s:%s" % (m.kind, bc),
                                   "%s got a non-error reply although the service (%s) never takes the name: %r" % (m.kind, beh, rets[0]))
            if nd and never_owns(beh):
                self.violation("delivered-without-owner:%s:%s" % (m.kind, bc), "%s was delivered %d time(s) although %s never owns "
                               "the name" % (m.kind, nd, beh))
            if nd > 1:
                self.violation("delivered-%d-times:%s" % (nd, m.kind), "held %s delivered %d times: %r" % (m.kind, nd, got))
            if m.kind == "call":
                if rets and nd == 0 and not wrong:
                    self.violation("reply-without-delivery", "call answered by %r but never logged by the service" % rets[0])
                if errs and nd:
                    self.violation("error-and-delivery:call:%s" % bc, "caller got an error AND the call reached the service")
                outcome = "delivered" if rets else ("error" if errs else "none")
                if errs:
                    self.part.count("error:" + (errs[0].msg.known().get(4) or b"?").decode())
            elif m.kind == "start-noreply":
                self.part.count("start-noreply-waiters")
                if nd:
                    self.violation("start-request-forwarded", "StartServiceByName itself was delivered to the service")
                # the specification only says the reply "should be omitted"; the bus answers such a waiter when the start
                # succeeds (bus_activation_service_created does not look at the flag): 0 or 1 answers are both accepted
                if len(replies) > 1:
                    self.violation("answered-%d-times:start-noreply:%s" % (len(replies), bc), "received %d replies" % len(replies))
                if never_owns(beh) and rets:
                    self.violation("success-without-owner:start-noreply:%s" % bc, "non-error reply although the service never takes the name")
                outcome = "error" if errs else ("answered" if rets else "silent")
            elif m.kind == "start":
                if nd:
                    self.violation("start-request-forwarded", "StartServiceByName itself was delivered to the service")
                if rets:
                    code = rets[0].msg.body[0] if rets[0].msg.body else None
                    if code not in (1, 2):
                        self.violation("start-reply-code:%r" % code, "StartServiceByName returned %r" % (rets[0].msg.body,))
                    outcome = "start-reply-%s" % code
                else:
                    outcome = "error" if errs else "none"
            else:
                if len(errs) > 1:
                    self.violation("answered-%d-times:signal:%s" % (len(errs), bc), "signal sender received %d errors" % len(errs))
                if errs and nd:
                    self.violation("error-and-delivery:signal:%s" % bc, "sender got an error AND the signal reached the service")
                if not errs and not nd:
                    # the round ended with an answered StartServiceByName for this name (sent after the signal) and a
                    # barrier of the signal's sender: the start the signal waited for has succeeded or failed
                    self.violation("lost:signal:%s" % bc, "the start that the held signal %s#%d waited for has %s, but the signal "
                                   "was neither delivered nor answered with an error"
                                   % (c.unique.decode(), m.serial, "succeeded" if self.owned.get(m.name) else "ended"))
                outcome = "delivered" if nd else ("error" if errs else "none")
            self.part.count("outcome:%s:%s" % (m.kind, outcome))
            self.part.count("behaviour:" + bc)
            self.part.sig(bc, m.kind, outcome, mode)
        # order at each service process
        sent = {(self.senders[m.sender].unique, m.serial): (m.epoch, m.seq) for m in self.msgs}
        for name, lg in self.logs.items():
            for inst in lg.instances:
                arr = [(s, ser) for (idx, mtype, s, ser, member, tok) in sorted(inst["msgs"]) if member != "Sync"]
                idxs = [x[0] for x in inst["msgs"]]
                if idxs != sorted(idxs):
                    self.part.inconclusive.append("service log of %s not in arrival order" % name.decode())
                bad = am.order_violations(arr, sent)
                self.part.count("order-pairs-checked", len(arr) * (len(arr) - 1) // 2)
                if bad:
                    (a, b) = bad[0]
                    same = a[0] == b[0]
                    self.violation("out-of-order:%s" % ("same-sender" if same else "across-senders"),
                                   "%s saw %s#%d before %s#%d, but the second was sent (and acknowledged by a barrier) first"
                                   % (name.decode(), a[0].decode(), a[1], b[0].decode(), b[1]), {"arrivals": repr(arr[:40])})

    def judge_starts(self, stderr_text):
        lines = stderr_text.split("\n")
        dl = self.deliveries()
        for name, beh in self.names.items():
            lg = self.logs[name]
            bc = behaviour_class(beh)
            nerr = 0
            for m in self.msgs:
                if m.name == name:
                    c = self.senders[m.sender]
                    nerr += len([r for r in c.log if r.msg.type == 3 and r.msg.known().get(5) == m.serial])
            self.part.count("process-starts", lg.starts)
            for cls, text in am.start_log_problems(name.decode(), lg.starts, lines, nerr):
                self.violation("%s:%s" % (cls, bc), text, {"stub_log": [i["pid"] for i in lg.instances]})
            if lg.starts:
                self.part.sig("starts", bc, min(lg.starts, 3))
            # the only activation succeeded at once: nobody may have been given an error
            acquired = [i for i in lg.instances if i["acquired"] and i["acquired"][0] == name and i["acquired"][1] == "1"]
            failed = [ln for ln in lines if ("service '%s' failed" % name.decode()) in ln or
                      ("Failed to activate service '%s'" % name.decode()) in ln]
            if lg.starts == 1 and acquired and nerr and not failed:
                self.violation("error-despite-successful-start:%s" % bc, "%s was started once and took the name, yet %d error(s) "
                               "were sent to waiting callers" % (name.decode(), nerr))

    def final_recount(self):
        """Reply multiplicity once more after the last barrier (a second reply may be late)."""
        for c in self.senders:
            c.barrier()
        for m in self.msgs:
            if not m.judged:
                continue
            c = self.senders[m.sender]
            n = len([r for r in c.log if r.msg.type in (2, 3) and r.msg.known().get(5) == m.serial])
            if m.kind in ("call", "start") and n != 1:
                self.violation("answered-%d-times:%s:%s" % (n, m.kind, behaviour_class(self.names[m.name])),
                               "%s had %d replies by the end of the history" % (m.kind, n))
        dl = self.deliveries()
        for m in self.msgs:
            got = dl.get((self.senders[m.sender].unique, m.serial), [])
            if len(got) > 1:
                self.violation("delivered-%d-times:%s" % (len(got), m.kind), "delivered repeatedly by the end of the history")

    # -------------------------------------------------------------- driver
    def run(self):
        rng = self.rng
        self.setup()
        nrounds = rng.randint(3, 5)
        for rno in range(nrounds):
            if not self.daemon.alive():
                self.violation("bus-died", "the bus exited during the history")
                break
            cands = [n for n in self.departure_candidates() if rng.random() < 0.5]
            done = False
            if cands and rng.random() < 0.45:
                t = rng.choice(cands)
                slow_used = getattr(self, "slow_departures", 0)
                if self.owner(t) is None and not (is_slow(self.names[t]) and slow_used >= 1):
                    if is_slow(self.names[t]):
                        self.slow_departures = slow_used + 1
                    self.departure_round(rno, t)
                    done = True
            if not done:
                self.round(rno)
        if self.daemon.alive():
            self.final_recount()
        self.finish()

    def finish(self):
        if self.daemon is None or self.daemon.stopped:
            return
        for c in self.senders + self.departers + ([self.obs] if self.obs else []):
            c.close()
        st, err = self.daemon.stop()
        try:
            self.judge_starts(err)
        finally:
            self.kill_strays()
        for cls, site, text in self.daemon.problems():
            self.part.violation("%s:%s:%s" % (PROP, cls, site), "bus reported %s (%s)" % (cls, self.cur),
                                self.witness({"stderr": text[-3000:]}))
        self.part.count("bus-shutdowns-scraped")

    def kill_strays(self):
        for name in self.names:
            for pid in StubLog(self.logpath(name)).pids():
                try:
                    with open("/proc/%d/cmdline" % pid, "rb") as fh:
                        cmd = fh.read()
                except OSError:
                    continue
                if b"service_stub.py" in cmd and self.rundir.encode() in cmd:
                    try:
                        os.kill(pid, signal.SIGKILL)
                        self.part.count("stray-stubs-killed")
                    except OSError:
                        pass

    def cleanup(self):
        for c in self.senders + self.departers + ([self.obs] if self.obs else []):
            try:
                c.close()
            except Exception:
                pass
        if self.daemon is not None and not self.daemon.stopped:
            self.daemon.stop()
            for cls, site, text in self.daemon.problems():
                self.part.violation("%s:%s:%s" % (PROP, cls, site), "bus reported %s (%s)" % (cls, self.cur),
                                    self.witness({"stderr": text[-3000:]}))
        if self.names and os.path.isdir(os.path.join(self.rundir, "logs")):
            self.kill_strays()


def trickle_case(b, rundir, rng, part, hid, attempt=0):
    """The start timeout is counted from the start, not from the latest request that joined it: one sender keeps
    auto-starting a service that never takes its name, one call every 0.6 x service_start_timeout.  Every call gets its
    error; the first one must have it about one timeout after it was sent, however many calls joined meanwhile.
    Returns None (fine / not judged) or a description of the lateness."""
    os.makedirs(rundir, exist_ok=True)
    os.chmod(rundir, 0o755)
    svcdir = os.path.join(rundir, "services")
    os.makedirs(svcdir)
    name = b"com.example.Trickle"
    with open(os.path.join(svcdir, "trickle.service"), "w") as fh:
        fh.write("[D-BUS Service]\nName=%s\nExec=/bin/sleep 14\n" % name.decode())
    T = rng.choice([1000, 1200])
    n = rng.choice([9, 10, 12])
    d = busproc.Daemon(b, rundir, busproc.make_config("@SOCK@", servicedirs=[svcdir], limits={"service_start_timeout": T}), name="t")
    late = None
    try:
        if not d.started():
            part.inconclusive.append("trickle: daemon did not start")
            return None
        c = client.connect(d.sock)
        sent = {}
        arrived = {}
        gap = 0.6 * T / 1000.0
        t0 = time.monotonic()
        nxt = t0
        i = 0
        deadline = t0 + n * gap + T / 1000.0 + client.WATCHDOG
        while len(arrived) < n and time.monotonic() < deadline:
            now = time.monotonic()
            if i < n and now >= nxt:
                ser = c.call_async(name, b"/t", ACT_IFACE, b"Call", b"s", [b"trickle-%d" % i])
                sent[ser] = (i, time.monotonic())
                i += 1
                nxt += gap
                continue
            c.pump(timeout=0.02)
            for rec in c.take_inbox():
                rs = rec.msg.known().get(5)
                if rec.msg.type in (2, 3) and rs in sent and rs not in arrived:
                    arrived[rs] = (time.monotonic(), rec.msg.type, rec.msg.known().get(4))
                elif rec.msg.type in (2, 3) and rs in arrived:
                    part.violation("%s:answered-2-times:call:trickle" % PROP, "a waiting call received a second answer",
                                   {"part": "trickle", "history": hid})
        part.count("trickle-cases")
        part.count("trickle-calls", n)
        if len(arrived) < n:
            part.violation("%s:hang:trickle" % PROP, "%d of %d auto-start calls to a service that never takes its name had no answer "
                           "%.0f s after the last one was sent" % (n - len(arrived), n, client.WATCHDOG), {"part": "trickle", "history": hid, "T": T})
            return None
        lag = []
        for ser, (idx, ts) in sorted(sent.items(), key=lambda kv: kv[1][0]):
            lag.append(round(arrived[ser][0] - ts, 2))
        part.sig("trickle", T, n, min(int(lag[0] * 1000 / T), 9))
        part.extra_max = max(getattr(part, "extra_max", 0.0), lag[0] - T / 1000.0)
        if lag[0] > T / 1000.0 + 4.0:
            late = "first call answered %.2f s after it was sent (service_start_timeout %d ms, %d further calls joined every %.2f s); " \
                   "answer delays of all calls: %r" % (lag[0], T, n - 1, gap, lag)
        c.close()
    finally:
        d.stop()
        if attempt and late:
            pass
        for cls, site, text in d.problems():
            part.violation("%s:%s:%s" % (PROP, cls, site), "bus reported %s (trickle)" % cls, {"part": "trickle", "stderr": text[-2000:]})
        shutil.rmtree(rundir, ignore_errors=True)
    return late


def run_trickle(b, rundir, seed, shard, i, part):
    """a lateness is reported only when a second, independent run shows it again (a loaded machine can delay one run)"""
    hid = shard * 100000 + 90000 + i
    late = trickle_case(b, os.path.join(rundir, "t%d" % i), gen.rng_for(seed, PROP, "trickle", shard, i), part, hid)
    if late:
        part.count("trickle-late-once")
        late2 = trickle_case(b, os.path.join(rundir, "t%d-again" % i), gen.rng_for(seed, PROP, "trickle", shard, i), part, hid, 1)
        if late2:
            part.violation("%s:timeout-error-late:joined-start" % PROP, "waiters of a start that never succeeds get their error late when "
                           "further requests join it (twice): " + late2, {"part": "trickle", "history": hid, "first_run": late})


def run_history(b, rundir, seed, shard, i, part):
    hid = shard * 100000 + i
    h = History(b, os.path.join(rundir, "h%d" % i), gen.rng_for(seed, PROP, shard, i), part, hid)
    try:
        h.run()
        part.count("histories")
        return h
    except (client.Timeout, client.Closed):
        part.count("watchdog")
        alive1 = h.daemon.alive() if h.daemon else False
        h.cleanup()
        if not alive1:
            return h
        h2 = History(b, os.path.join(rundir, "h%d-retry" % i), gen.rng_for(seed, PROP, shard, i), part, hid)
        try:
            h2.run()
            part.count("histories")
        except (client.Timeout, client.Closed) as e2:
            alive = h2.daemon.alive() if h2.daemon else False
            part.violation("%s:hang:%s" % (PROP, h2.cur), "a waiting caller had neither delivery nor error within "
                           "service_start_timeout + watchdog, twice (bus alive=%s, %s)" % (alive, type(e2).__name__), h2.witness())
        finally:
            h2.cleanup()
        return h2
    finally:
        h.cleanup()


# =================================================================================== helper part
STUB_SH = "#!/bin/sh\nprintf '%s\\n' \"$@\" > \"$1\"\n"


def _rand_valid_name(rng):
    r = rng.random()
    if r < 0.5:
        return gen.rand_wellknown(rng)
    if r < 0.8:
        return namegen.busname_of_len(rng, rng.choice([3, 5, 8, 20, 60, 200, 246, 247]))
    return b"com.example.Svc%d" % rng.randint(0, 99)


def _rand_invalid_name(rng):
    base = bytearray(gen.rand_wellknown(rng))
    k = rng.choice(["nodot", "double-dot", "lead-dot", "trail-dot", "digit", "space", "bad-char", "utf8", "colon-short", "colon-bare",
                    "colon-empty-el", "star", "at", "newline", "tab", "dollar", "quote"])
    if k == "nodot":
        return bytes(base).replace(b".", b"_")
    if k == "double-dot":
        return bytes(base).replace(b".", b"..", 1)
    if k == "lead-dot":
        return b"." + bytes(base)
    if k == "trail-dot":
        return bytes(base) + b"."
    if k == "digit":
        return rng.choice([b"1", b"9x"]) + bytes(base)
    if k == "colon-short":
        return rng.choice([b":x", b":1", b":abc", b":-"])
    if k == "colon-bare":
        return b":"
    if k == "colon-empty-el":
        return rng.choice([b":1..2", b":.1", b":1.", b":a b.c"])
    ch = {"space": b" ", "bad-char": rng.choice([b"!", b"+", b",", b"=", b"%", b"~", b"(", b"\\"]), "utf8": "é".encode(),
          "star": b"*", "at": b"@", "newline": b"\n", "tab": b"\t", "dollar": b"$", "quote": rng.choice([b"'", b'"', b"`"])}[k]
    pos = rng.randint(0, len(base))
    return bytes(base[:pos]) + ch + bytes(base[pos:])


def gen_helper_case(rng, base, stub):
    """Writes the world below `base`; returns the case description."""
    ndirs = rng.choice([1, 1, 2, 2, 3])
    dirs = [os.path.join(base, "sd%d" % i) for i in range(ndirs)]
    for d in dirs:
        os.makedirs(d)
    marker = os.path.join(base, "marker")
    r = rng.random()
    target_good = None
    if r < 0.45:
        acls, arg = "valid", _rand_valid_name(rng)
    elif r < 0.50:
        acls, arg = "unique-style", gen.rand_unique(rng)
    elif r < 0.76:
        acls, arg = "invalid", _rand_invalid_name(rng)
    elif r < 0.88:
        acls = "path-like"
        good = b"com.example.Target"
        arg = rng.choice([b"../x", b"../sd1/" + good, b"../sd0/" + good, b"./" + good, b"sub/" + good, b"/etc/passwd", b"..",
                          b".", b"a/../" + good, os.path.join(dirs[-1], good.decode()).encode(), b"../../" + good, b"sd0/../" + good])
        target_good = good
    elif r < 0.94:
        acls = "over-long"
        arg = namegen.busname_of_len(rng, 255) + rng.choice([b"x", b".y", b"x" * 40])
    else:
        acls, arg = "option-like", rng.choice([b"--help", b"-h", b"-?", b"--version", b"", b"-", b"--"])
    if wire.bus_name_reason(arg) is None and acls in ("invalid", "path-like", "over-long", "option-like"):
        acls = "valid"
    elif wire.bus_name_reason(arg) is not None and acls in ("valid", "unique-style"):
        acls = "invalid"
    has_user = rng.random() < 0.93
    conf = ['<!DOCTYPE busconfig PUBLIC "-//freedesktop//DTD D-Bus Bus Configuration 1.0//EN" '
            '"http://www.freedesktop.org/standards/dbus/1.0/busconfig.dtd">', "<busconfig>", "  <type>system</type>"]
    if has_user:
        conf.append("  <user>%s</user>" % rng.choice(["root", "messagebus", "nobody-such-user"]))
    conf.append("  <listen>unix:path=%s</listen>" % os.path.join(base, "nonexistent-socket"))
    for d in dirs:
        conf.append("  <servicedir>%s</servicedir>" % d)
    conf.append('  <policy context="default"><allow user="*"/><allow own="*"/><allow send_destination="*"/></policy>')
    conf.append("</busconfig>")
    conf_text = "\n".join(conf) + "\n"
    conf_path = os.path.join(base, "system.conf")
    with open(conf_path, "w") as fh:
        fh.write(conf_text)

    # which file name would belong to the argument, if any
    fname = arg + b".service"
    usable = (b"\0" not in fname and len(os.path.basename(fname)) <= 255 and arg not in (b"", b".", b".."))
    classes = []
    written = {}
    declared = arg

    def content(cls):
        name_line = b"Name=" + declared
        exec_line = ("Exec=%s %s" % (stub, marker)).encode()
        user_line = b"User=" + rng.choice([b"root", b"anyrandomuser", b"nobody"])
        head = b"[D-BUS Service]"
        if cls == "good":
            lines = [head, name_line, exec_line, user_line]
        elif cls == "good-variant":
            body = [name_line, exec_line, user_line, b"X-Unknown=1", b"SystemdService=dbus-foo.service"]
            rng.shuffle(body)
            lines = [b"# a comment", b"", head] + body[:2] + [b"# another", b""] + body[2:] + [b"", b"[Other Group]", b"Name=elsewhere"]
        elif cls == "good-dquote":
            lines = [head, name_line, ('Exec="%s" "%s"' % (stub, marker)).encode(), user_line]
        elif cls == "good-squote":
            lines = [head, name_line, ("Exec='%s' '%s'" % (stub, marker)).encode(), user_line]
        elif cls == "odd-quoting":
            ex = rng.choice(['%s "%s' % (stub, marker), "%s '%s" % (stub, marker), "%s %s \\" % (stub, marker),
                             '%s %s "a b" \'c d\' e\\\\ f' % (stub, marker), "%s %s #comment" % (stub, marker),
                             "%s %s $(touch %s.injected) `x`" % (stub, marker, marker), "%s %s ; touch %s.injected" % (stub, marker, marker),
                             '"%s %s"' % (stub, marker), "  %s   %s  " % (stub, marker), "", " ", "%s\\s%s" % (stub, marker),
                             "%s %s | cat" % (stub, marker), "%s\t%s" % (stub, marker)])
            lines = [head, name_line, b"Exec=" + ex.encode(), user_line]
        elif cls == "relative-exec":
            lines = [head, name_line, ("Exec=%s %s" % (os.path.basename(stub), marker)).encode(), user_line]
        elif cls == "spaces-around-eq":
            lines = [head, b"Name = " + declared, ("Exec = %s %s" % (stub, marker)).encode(), b"User = root"]
        elif cls == "name-mismatch":
            other = rng.choice([declared + b"x", declared[:-1] or b"a.b", declared.swapcase(), b"com.example.Other", declared + b".service",
                                declared + b" ", b"", declared.replace(b".", b"..", 1)])
            if other == declared:
                other = declared + b"_"
            lines = [head, b"Name=" + other, exec_line, user_line]
        elif cls == "no-name":
            lines = [head, exec_line, user_line]
        elif cls == "no-exec":
            lines = [head, name_line, user_line]
        elif cls == "no-user":
            lines = [head, name_line, exec_line]
        elif cls == "wrong-group":
            lines = [rng.choice([b"[Desktop Entry]", b"[D-BUS Service ]", b"[d-bus service]", b"[D-BUS  Service]"]), name_line, exec_line, user_line]
        elif cls == "commented-out":
            lines = [head, b"#" + name_line, exec_line, user_line]
        else:
            return rng.choice([b"", b"\0\0\0", b"Name=" + declared + b"\n" + exec_line + b"\n", b"[D-BUS Service\n" + name_line + b"\n",
                               b"[D-BUS Service]\n=novalue\n", b"[D-BUS Service]\nName\n", b"\xff\xfe[D-BUS Service]\n", b"[[x]]\n"])
        return b"\n".join(lines) + rng.choice([b"\n", b"", b"\n\n", b"\r\n"])

    pool = ["good"] * 5 + ["good-variant", "good-dquote", "good-squote", "odd-quoting", "odd-quoting", "relative-exec", "spaces-around-eq",
                           "name-mismatch", "name-mismatch", "no-name", "no-exec", "no-user", "wrong-group", "commented-out", "broken"]
    for d in dirs:
        cls = None
        if usable and b"/" not in arg and rng.random() < 0.62:
            cls = rng.choice(pool)
            if b"\n" in declared or b"\r" in declared:
                # a Name= value cannot contain a line break; such a file cannot declare the argument
                cls = "name-mismatch"
            try:
                text = content(cls)
                with open(os.path.join(d.encode(), fname), "wb") as fh:
                    fh.write(text)
                written[os.path.join(d, fname.decode("latin1"))] = {"class": cls, "text": text.decode("latin1")}
            except OSError:
                cls = None
        classes.append(cls)
    trav = None
    if usable and b"/" in arg:
        # the path the argument would name if it were pasted behind a service directory: put a perfectly good file there
        for d in dirs[:1]:
            p = os.path.normpath(os.path.join(d.encode(), fname))
            if p.startswith(base.encode() + b"/"):
                try:
                    os.makedirs(os.path.dirname(p), exist_ok=True)
                    with open(p, "wb") as fh:
                        fh.write(content("good"))
                    trav = p.decode("latin1")
                except OSError:
                    pass
    return {"arg": arg, "arg_class": acls, "dirs": classes, "has_user": has_user, "config": conf_text, "config_path": conf_path,
            "marker": marker, "files": written, "traversal_target": trav}


def run_helper_case(b, rng, base, part, cid):
    os.makedirs(base)
    stub = os.path.join(base, "stub.sh")
    with open(stub, "w") as fh:
        fh.write(STUB_SH)
    os.chmod(stub, 0o755)
    case = gen_helper_case(rng, base, stub)
    arg = case["arg"]
    env = hrun.san_env({"TEST_LAUNCH_HELPER_CONFIG": case["config_path"]})
    wit = {"part": "helper", "case": cid, "argument": repr(arg), "arg_class": case["arg_class"], "service_dirs": case["dirs"],
           "files": case["files"], "config": case["config"], "traversal_target": case["traversal_target"]}
    if b"\0" in arg:
        return
    try:
        p = subprocess.run([b.launch_helper.encode(), arg], env=env, stdin=subprocess.DEVNULL, stdout=subprocess.PIPE,
                           stderr=subprocess.PIPE, timeout=60, cwd=base)
        rc, err = p.returncode, p.stderr.decode("latin1")
    except subprocess.TimeoutExpired:
        part.violation("%s:helper-hang:%s" % (PROP, case["arg_class"]), "the helper did not finish within 60 s", wit)
        return
    executed = os.path.exists(case["marker"])
    injected = os.path.exists(case["marker"] + ".injected")
    may, must, reason = am.helper_verdict(arg, case["dirs"], case["has_user"])
    part.evaluations += 1
    part.count("helper-invocations")
    part.count("helper:%s" % ("executed" if executed else "refused"))
    part.count("helper-exit:%d" % rc)
    pattern = "".join("-" if c is None else ("g" if am.FILE_CLASSES[c][3] else ("o" if all(am.FILE_CLASSES[c][:3]) else "b"))
                      for c in case["dirs"])
    rs = reason.split(":")[0] + ":" + reason.split(":")[-1]
    part.sig("helper", case["arg_class"], rs, pattern, executed)
    wit["exit_status"] = rc
    wit["stderr"] = err[-1500:]
    cls = hrun.classify_stderr(err)
    if cls:
        part.violation("%s:%s:%s" % (PROP, cls[0], cls[1]), "launch helper reported %s for argument class %s" % (cls[0], case["arg_class"]), wit)
    elif rc < 0:
        part.violation("%s:helper-signal:%d" % (PROP, -rc), "launch helper died from signal %d" % -rc, wit)
    if injected:
        part.violation("%s:helper-shell-injection" % PROP, "text after the command in Exec was executed by a shell", wit)
    if executed and not may:
        part.violation("%s:helper-executed:%s" % (PROP, reason),
                       "the helper executed the program for argument %r although %s" % (arg, reason), wit)
    elif executed:
        part.count("helper-executed-legitimately")
        if not must:
            part.count("helper-executed-unspecified")
    elif must:
        part.violation("%s:helper-not-executed:%s" % (PROP, reason),
                       "the helper did not execute the program (exit %d) although the first service file found is well-formed, "
                       "declares the name, an Exec and a User" % rc, wit)
    else:
        part.count("helper-refused:%s" % reason.split(":")[0])
    if may and not must:
        part.count("helper-unspecified-cases")
    return {"part": "helper", "case": cid, "argument": repr(arg), "arg_class": case["arg_class"], "service_dirs": case["dirs"],
            "config_has_user": case["has_user"], "model": {"may_exec": may, "must_exec": must, "reason": reason},
            "executed": executed, "exit_status": rc}


# =================================================================================== orchestration
# ======================================================================================= a bus that starts services through a helper
# With <servicehelper> configured (system-bus style) the bus itself refuses a service file that has no User= line, before
# anything is spawned.  Every requester must get exactly ONE error for it - also a second requester arriving inside the start
# timeout, and also once the start timeout has passed (nothing may be left pending behind the refusal).

HB_TIMEOUT_MS = 1200


def run_helper_bus_case(b, base, rng, part, cid):
    svcdir = os.path.join(base, "services")
    os.makedirs(svcdir, exist_ok=True)
    name = b"com.example.NoUser%d" % rng.randint(0, 9)
    lines = ["[D-BUS Service]", "Name=%s" % name.decode(), "Exec=/bin/true"]
    if rng.random() < 0.3:
        lines.append("SystemdService=dbus-x.service")
    with open(os.path.join(svcdir, name.decode() + ".service"), "w") as fh:
        fh.write("\n".join(lines) + "\n")
    extra = "  <servicehelper>%s</servicehelper>" % b.launch_helper
    cfg = busproc.make_config("@SOCK@", servicedirs=[svcdir], bus_type="system", limits={"service_start_timeout": HB_TIMEOUT_MS}, extra=extra)
    d = busproc.Daemon(b, os.path.join(base, "run"), cfg, name="hb")
    wit = {"part": "helper-bus", "case": cid, "config": cfg, "steps": []}
    cl = []
    try:
        if not d.started():
            part.inconclusive.append("helper-bus case: daemon did not start: " + d.stderr_text()[-300:])
            return
        n = rng.randint(2, 4)
        cs = [client.connect(d.sock) for _ in range(n)]
        cl += cs
        reqs = []     # (client, serial, kind)
        t0 = time.monotonic()
        for i, c in enumerate(cs):
            kind = rng.choice(["call", "call", "start", "signal"])
            if kind == "start":
                serial = c.bus_call_async(b"StartServiceByName", b"su", [name, 0])
            elif kind == "call":
                serial = c.call_async(name, b"/x", b"com.example.X", b"M", b"s", [b"x"])
            else:
                serial = c.signal(b"/x", b"com.example.X", b"S", b"s", [b"x"], dest=name)
            reqs.append((c, serial, kind))
            wit["steps"].append("%s from client %d serial %d" % (kind, i, serial))
            c.barrier()
            if rng.random() < 0.5:
                time.sleep(rng.choice([0.0, 0.1, HB_TIMEOUT_MS / 2000.0]))
        # let the start timeout pass (counted from the FIRST request), then one more round-trip each
        rest = HB_TIMEOUT_MS / 1000.0 + 0.6 - (time.monotonic() - t0)
        if rest > 0:
            time.sleep(rest)
        for c in cs:
            c.barrier()
            c.barrier()
        part.evaluations += 1
        part.count("helper-bus:cases")
        for c, serial, kind in reqs:
            errs = [r for r in c.log if r.msg.type == 3 and r.msg.known().get(5) == serial and r.msg.known().get(7) == b"org.freedesktop.DBus"]
            names = [r.msg.known().get(4).decode() for r in errs]
            part.count("helper-bus:requests:" + kind)
            part.sig("helper-bus", kind, tuple(names))
            want = 0 if kind == "signal" else 1
            if kind == "signal" and len(errs) <= 1:
                part.count("helper-bus:signal-errors:%d(not judged)" % len(errs))
                continue
            if len(errs) != want:
                part.violation("%s:helper-bus:%d-errors-for-one-%s:service-file-without-user" % (PROP, len(errs), kind),
                               "a %s for a service whose file has no User= line (bus with <servicehelper>) was answered with %d errors: %r"
                               % (kind, len(errs), names), dict(wit))
            elif "TimedOut" in names[0] or "Timeout" in names[0]:
                part.violation("%s:helper-bus:answered-only-at-the-start-timeout:service-file-without-user" % PROP,
                               "a %s for a service the bus cannot start (no User= line) was answered with %s: it waited for a start that was "
                               "never attempted" % (kind, names[0]), dict(wit))
            else:
                part.count("helper-bus:one-error:" + names[0].rsplit(".", 1)[-1])
    except (client.Timeout, client.Closed) as e:
        part.inconclusive.append("helper-bus case %d aborted: %s" % (cid, type(e).__name__))
    finally:
        for c in cl:
            try:
                c.close()
            except Exception:
                pass
        d.stop()
        for cls, site, text in d.problems():
            part.violation("%s:%s:%s" % (PROP, cls, site), "daemon reported %s (helper-bus part)" % cls, dict(wit, stderr=text[-2000:]))
        shutil.rmtree(base, ignore_errors=True)


def _worker(args):
    if args[0] == "helper-bus":
        _, seed, shard, count = args
        part = report.Part()
        b = build.build("asan", quiet=True)
        rundir = tempfile.mkdtemp(prefix="verif-c19h-")
        try:
            for i in range(count):
                run_helper_bus_case(b, os.path.join(rundir, "c%d" % i), gen.rng_for(seed, PROP, "helper-bus", shard, i), part, shard * 1000 + i)
        finally:
            shutil.rmtree(rundir, ignore_errors=True)
        return part
    return _worker_main(args)


def _worker_main(args):
    kind, seed, shard, count = args
    part = report.Part()
    b = build.build("asan", quiet=True)
    rundir = tempfile.mkdtemp(prefix="verif-c19-")
    try:
        if kind == "trickle":
            for i in range(count):
                run_trickle(b, rundir, seed, shard, i, part)
        elif kind == "daemon":
            for i in range(count):
                h = run_history(b, rundir, seed, shard, i, part)
                if shard == 0 and i < 2:
                    part.sample({"part": "daemon", "history": h.hid, "steps": h.steps[:20]})
                shutil.rmtree(os.path.join(rundir, "h%d" % i), ignore_errors=True)
                shutil.rmtree(os.path.join(rundir, "h%d-retry" % i), ignore_errors=True)
        else:
            for i in range(count):
                base = os.path.join(rundir, "c%d" % i)
                rng = gen.rng_for(seed, PROP, "helper", shard, i)
                summary = run_helper_case(b, rng, base, part, shard * 1000000 + i)
                if shard == 0 and i < 3 and summary:
                    part.sample(summary)
                shutil.rmtree(base, ignore_errors=True)
    finally:
        shutil.rmtree(rundir, ignore_errors=True)
    return part


def run(tier, seed, replay=None, scale=1.0):
    r = report.Run(PROP, tier)
    r.rule = RULE
    b = build.build("asan")
    r.builds.append(b.info())
    if replay:
        doc = json.load(open(replay))
        w = doc["witness"]
        part = report.Part()
        rundir = tempfile.mkdtemp(prefix="verif-c19-")
        try:
            if w.get("part") == "helper":
                shard, i = divmod(w["case"], 1000000)
                run_helper_case(b, gen.rng_for(doc["seed"], PROP, "helper", shard, i), os.path.join(rundir, "c"), part, w["case"])
                part.sample({"part": "helper", "case": w["case"]})
            else:
                shard, i = divmod(w["history"], 100000)
                h = run_history(b, rundir, doc["seed"], shard, i, part)
                part.sample({"part": "daemon", "history": h.hid, "steps": h.steps[:40]})
        finally:
            shutil.rmtree(rundir, ignore_errors=True)
        part.sig("replay", 0)
        part.sig("replay", 1)
        r.merge(part)
        return r.finish()
    nh = int((128 if tier == "quick" else 3008) * scale)
    nc = int((2000 if tier == "quick" else 100000) * scale)
    shards = []
    for i in range(16):
        shards.append(("daemon", seed, i, max(1, nh // 16)))
    for i in range(16):
        shards.append(("helper", seed, i, max(1, nc // 16)))
    nt = int((8 if tier == "quick" else 200) * scale)
    for i in range(min(8, nt)):
        shards.append(("trickle", seed, i, max(1, nt // 8)))
    nhb = int((32 if tier == "quick" else 800) * scale)
    for i in range(min(8, max(1, nhb))):
        shards.append(("helper-bus", seed, i, max(1, nhb // 8)))
    for part in report.run_sharded(_worker, shards):
        r.merge(part)
        r.extra["trickle_first_answer_excess_max_s"] = round(max(r.extra.get("trickle_first_answer_excess_max_s", 0.0),
                                                                 getattr(part, "extra_max", 0.0)), 2)
    r.extra["outcomes"] = {k[8:]: int(v) for k, v in sorted(r.counters.items()) if k.startswith("outcome:")}
    if scale >= 1:
        for k in ("outcome:call:delivered", "outcome:call:error", "outcome:signal:delivered", "outcome:signal:error",
                  "outcome:start:start-reply-1", "outcome:start:start-reply-2", "outcome:start:error",
                  "behaviour:quick", "behaviour:delay", "behaviour:never", "behaviour:other", "behaviour:exit-before-n",
                  "behaviour:exit-after-n", "behaviour:exec-missing", "error:org.freedesktop.DBus.Error.TimedOut",
                  "helper:executed", "helper:refused", "helper-refused:invalid-name", "helper-refused:file",
                  "helper-refused:no-service-file", "service-syncs"):
            r.require(k, 1)
        r.require("order-pairs-checked", 200)
        for k in ("departure-rounds:failed-start", "departure-rounds:successful-start", "departure-rounds:all-waiters-pending-at-release",
                  "behaviour:gate-quick", "behaviour:gate-exit-before-n", "behaviour:gate-exit-after-n"):
            r.require(k, 1)
        r.require("survivors-answered-after-departure", 20)
    if scale >= 1:
        r.require("trickle-cases", 6)
    r.require("process-starts", 5)
    if scale >= 1:
        r.require("helper-bus:cases", 20)
        r.require("helper-bus:requests:call", 15)
        r.require("helper-bus:requests:start", 5)
    r.require("helper-invocations", 20)
    r.require("bus-shutdowns-scraped", 3)
    r.assumptions = [
        "arrival order at the service = order of the lines its single-threaded stub appends to its log",
        "cross-sender order is judged only where a driver round-trip of the earlier sender separates the two sends",
        "a second process start is attributed to 'the same activation' only through the bus's own log (no completion line between "
        "two 'Activating service' lines) and through the bound starts <= 1 + errors seen by callers",
        "a held signal counts as a waiting sender too: it must be delivered or answered with an error by the time a later "
        "StartServiceByName for the same name has been answered",
        "departure rounds: 'every surviving waiter has its error once one of them has it and each sender has done a round-trip' "
        "relies on all of them having been unanswered (hence in the one pending start of that name) when the start was released; "
        "otherwise only the bounded-progress deadline applies",
        "helper: the -for-tests build does not switch users or clear the environment; 'declares a User' is checked textually; cases "
        "where the first service file found is not plainly well-formed but another directory has a good one are not judged",
    ]
    return r.finish()
