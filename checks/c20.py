"""C20 - object-path handlers are chosen by exact path, then nearest fallback."""
import json
import re
import shutil
import tempfile

from vf import build, gen, hrun, report
from vf.models import objtree

PROP = "C20"
RULE = ("histories of 5..80 operations (try_register_object_path / try_register_fallback with handlers that take "
        "or decline, unregister in the middle, list_registered, get_object_path_data, method calls) over path sets "
        "with shared prefixes, adjacently sorting sibling names (a, a_, aa, ab, b, ...), the root path and deep paths; "
        "calls go to paths inside, beside, above and below the registered ones; executed on a real server-side "
        "DBusConnection fed by a private client connection in the same process; every step is compared with "
        "vf/models/objtree.py. distinct = (operation, shape of the pre-state around the path, outcome)")

COMPONENTS = ["a", "a_", "aa", "ab", "b"]
RARE = ["a0", "B", "_", "aaa", "ab_", "b0"]
DEVIATION_UNKNOWN_OBJECT = "error-name:unknown-object-reported-as-unknown-method"


# ----------------------------------------------------------------------------- generation

def _comp(rng):
    return rng.choice(COMPONENTS) if rng.random() < 0.88 else rng.choice(RARE)


def _path_pool(rng):
    """a set of related paths (tuples): random walks sharing prefixes, optionally the root"""
    pool = set()
    n = rng.choice([2, 3, 4, 6, 8, 12])
    maxdepth = rng.choice([2, 3, 3, 4, 7])
    while len(pool) < n:
        if pool and rng.random() < 0.65:
            base = rng.choice(sorted(pool))
            r = rng.random()
            if r < 0.4 and len(base) < maxdepth:
                p = base + (_comp(rng),)                       # child
            elif r < 0.75 and base:
                p = base[:-1] + (_comp(rng),)                  # sibling
            elif base:
                p = base[:rng.randint(0, len(base) - 1)]       # ancestor (maybe root)
            else:
                p = (_comp(rng),)
        else:
            p = tuple(_comp(rng) for _ in range(rng.randint(0 if rng.random() < 0.3 else 1, maxdepth)))
        pool.add(p)
    return sorted(pool)


def _call_target(rng, pool, model):
    regs = sorted(model.reg)
    r = rng.random()
    base = rng.choice(regs) if regs and rng.random() < 0.75 else rng.choice(pool)
    if r < 0.30:
        return base                                            # inside
    if r < 0.50:
        return base + tuple(_comp(rng) for _ in range(rng.choice([1, 1, 2, 4])))   # below
    if r < 0.68 and base:
        return base[:-1] + (_comp(rng),)                       # beside
    if r < 0.80 and base:
        return base[:rng.randint(0, len(base) - 1)]            # above
    if r < 0.88 and base:
        # a sibling of an ancestor, continued with the tail of the registered path
        i = rng.randint(0, len(base) - 1)
        return base[:i] + (_comp(rng),) + base[i + 1:]
    return tuple(_comp(rng) for _ in range(rng.randint(0, 4)))  # anywhere


def make_history(rng):
    """list of op tuples (op, path[, id, declines]); generated alongside the model so that only valid API
    calls are made (never unregister a free path)"""
    model = objtree.ObjTree()
    pool = _path_pool(rng)
    n = rng.choice([5, 8, 12, 20, 30, 50, 80])
    p_decl = rng.choice([0.2, 0.5, 0.8])
    p_fb = rng.choice([0.25, 0.5, 0.75])
    ops = []
    next_id = 1
    while len(ops) < n:
        r = rng.random()
        regs = sorted(model.reg)
        if r < 0.40:
            if regs and rng.random() < 0.2:
                p = rng.choice(regs)                           # occupied on purpose
            else:
                p = rng.choice(pool)
            path = objtree.join(p)
            fb = rng.random() < p_fb
            decl = rng.random() < p_decl
            hid = next_id
            next_id += 1
            err = model.register(path, hid, fb, decl)
            ops.append(("F" if fb else "R", path, hid, int(decl)))
            if err is not None:
                # a failed registration must change nothing: look at once
                ops.append(("G", path))
                ops.append(("C", path))
        elif r < 0.55:
            if not regs:
                continue
            p = rng.choice(regs)
            model.unregister(objtree.join(p))
            ops.append(("U", objtree.join(p)))
            if rng.random() < 0.5:
                ops.append(("C", objtree.join(p + ((_comp(rng),) if rng.random() < 0.5 else ()))))
        elif r < 0.85:
            t = _call_target(rng, pool, model)
            if rng.random() < 0.1:
                # Destroy(): whoever takes the call unregisters its own registration from inside its handler
                path = objtree.join(t)
                d = model.dispatch(path)
                ops.append(("D", path))
                if d.taker is not None:
                    own = [p for p, rec in model.reg.items() if rec.id == d.taker][0]
                    model.unregister(objtree.join(own))
                    # look at the tree right away: the node (and now empty ancestors) must be gone
                    ops.append(("L", objtree.join(own[:-1])))
                    if len(own) > 1:
                        ops.append(("L", objtree.join(own[:rng.randint(0, len(own) - 1)])))
                    ops.append(("C", objtree.join(own)))
                continue
            if rng.random() < 0.04:
                ops.append(("X", objtree.join(t)))        # the same call under every failing allocation of its dispatch
                continue
            ops.append(("C" if rng.random() < 0.9 else "c", objtree.join(t)))
        elif r < 0.93:
            t = _call_target(rng, pool, model)
            if rng.random() < 0.4:
                t = t[:rng.randint(0, len(t))]
            ops.append(("L", objtree.join(t)))
        elif r < 0.98:
            ops.append(("G", objtree.join(_call_target(rng, pool, model))))
        elif r < 0.99:
            ops.append(("P", objtree.join(_call_target(rng, pool, model))))
        else:
            ops.append(("I", objtree.join(_call_target(rng, pool, model))))
    return ops


def script_line(ops):
    return ";".join(" ".join(str(x) for x in op) for op in ops)


def parse_script(line):
    ops = []
    for tok in line.split(";"):
        f = tok.split()
        ops.append((f[0], f[1]) + tuple(int(x) for x in f[2:]))
    return ops


# ----------------------------------------------------------------------------- judgement

def _cap(n, c):
    return n if n < c else c


def judge(part, ops, res):
    """step-wise comparison of one executed history with the model"""
    line = script_line(ops)
    if res is None:
        part.inconclusive.append("missing harness output for a history")
        return
    if "crash" in res:
        c = res["crash"]
        cls = c.get("class") or (("hang", "h_objtree") if c.get("timeout") else ("crash", "rc%s" % c.get("rc")))
        part.violation("%s:%s:%s" % (PROP, cls[0], cls[1]), "harness crashed / hung / sanitizer report",
                       {"script": line, "stderr": c.get("stderr", "")[-3000:]})
        return
    out = []
    for o in res.get("ops", []):
        if o.get("op") == "destroyed" and out:
            out[-1] = dict(out[-1], destroyed_cb=o.get("cb"))      # second result object of a D op
        else:
            out.append(o)
    if len(out) != len(ops):
        part.inconclusive.append("harness returned %d results for %d ops" % (len(out), len(ops)))
        return
    model = objtree.ObjTree()
    # The recorded deviation (UnknownMethod where the property asks for UnknownObject) is tied to one state: the root
    # node's "invoke as fallback" flag is set - which it is from creation until somebody registers "/" as a plain object
    # (and again after "/" was registered as a fallback).  In the other state the library does produce UnknownObject, so
    # the wrong name there is a different failure and gets its own key.
    root_flag = {"fallback": True}

    def viol(key, what, i, expected, observed):
        part.violation("%s:%s" % (PROP, key), what,
                       {"script": line, "op_index": i, "op": list(ops[i]), "expected": expected, "observed": observed,
                        "registered_before": {objtree.join(p): list(r) for p, r in sorted(model.reg.items())}})

    for i, (op, o) in enumerate(zip(ops, out)):
        kind, path = op[0], op[1]
        p = objtree.split(path)
        part.count("op:" + kind)
        if kind in "RF":
            hid, decl = op[2], op[3]
            occupied = model.is_registered(path)
            shape = ("reg", kind, occupied, bool(model.ancestor_fallbacks(path)), model.has_descendant(path), p == ())
            before = dict(model.reg)
            err = model.register(path, hid, kind == "F", decl)
            got_err = None if o.get("ok") else o.get("err")
            part.sig(shape + (got_err,))
            if o.get("ok") and o.get("err_set"):
                viol("register-result:error-set-on-success", "registration succeeded but set the DBusError", i, err, o)
            if err != got_err:
                viol("register-result:%s" % ("succeeded-on-occupied-path" if err else "failed-on-free-path"),
                     "try_register_%s(%s): expected %s, got %s" % ("fallback" if kind == "F" else "object_path", path, err, got_err),
                     i, err, o)
                part.count("history-aborted")
                return
            if err:
                assert model.reg == before
                part.count("register-occupied")
            else:
                part.count("register-ok")
                if p == ():
                    root_flag["fallback"] = (kind == "F")
                if kind == "F":
                    root_flag.setdefault("ever", set()).add(p)
        elif kind == "U":
            r = model.unregister(path)
            part.sig("unreg", r.fallback, model.has_descendant(path), bool(model.ancestor_fallbacks(path)), p == (), not model.reg)
            if not o.get("ok") or o.get("cb") != [r.id]:
                viol("unregister-callback", "unregister(%s) did not invoke exactly the unregister function of handler %d" % (path, r.id),
                     i, [r.id], o)
            part.count("unregister")
        elif kind == "L":
            want = model.children(path)
            got = o.get("children")
            part.sig("list", _cap(len(want), 4), model.is_registered(path), p == (), _cap(len(p), 3))
            if sorted(got) != want or len(set(got)) != len(got):
                viol("children:%s" % ("missing" if set(want) - set(got) else "extra" if set(got) - set(want) else "duplicate"),
                     "list_registered(%s) = %s, registered tree has %s" % (path, got, want), i, want, got)
            part.count("list-compared")
        elif kind == "G":
            want = model.data(path)
            got = o.get("id")
            part.sig("data", want is not None)
            if (want if want is not None else -1) != got:
                viol("user-data", "get_object_path_data(%s) gave handler %s, expected %s" % (path, got, want), i, want, got)
            part.count("data-compared")
        elif kind == "X":
            d = model.dispatch(path)
            runs = o.get("runs") or []
            part.count("oom-call-ops")
            part.count("oom-call-runs", max(0, len(runs) - 1))
            if not runs or not runs[0].get("sent"):
                part.inconclusive.append("X op without a reference run")
                return
            ref = runs[0]
            want = ("from", d.taker) if d.taker is not None else ("err", d.error)
            got0 = ("from", ref.get("from")) if ref.get("type") == 2 else ("err", ref.get("err"))
            if got0 != want and not (want[0] == "err" and got0[0] == "err"):
                # error-name deviations are the C/c ops' business (recorded finding); here only taker vs error
                viol("reply:oom-call-reference", "fault-free call to %s answered %s, model says %s" % (path, got0, want), i, want, ref)
            for n, run in enumerate(runs[1:]):
                gk = ("from", run.get("from")) if run.get("type") == 2 else ("err", run.get("err"))
                if gk != got0:
                    part.count("oom-call-deviations")
                    viol("reply:changed-by-allocation-failure:%s" % ("reply-lost" if run.get("err", "").endswith("NoReply") else "other"),
                         "call to %s: with allocation %d of its dispatch failing the caller gets %s, without fault %s"
                         % (path, n, gk, got0), i, got0, run)
                    break
        elif kind in "CcD":
            d = model.dispatch(path)
            if kind == "D":
                part.count("destroy-calls")
                want_cb = [d.taker] if d.taker is not None else []
                if (o.get("destroyed_cb") or []) != want_cb:
                    viol("unregister-callback:from-inside-handler", "Destroy call to %s: unregister callbacks %s ran, expected %s"
                         % (path, o.get("destroyed_cb"), want_cb), i, want_cb, o)
                if d.taker is not None:
                    own = [pp for pp, rec in model.reg.items() if rec.id == d.taker][0]
                    model.unregister(objtree.join(own))
                    part.count("self-unregistrations-from-a-handler")
            exact = model.reg.get(p)
            nfb = len(model.ancestor_fallbacks(path))
            shape = ("call", kind, ("none" if exact is None else ("fb" if exact.fallback else "plain") + ("-declines" if exact.declines else "")),
                     _cap(nfb, 3), _cap(len(d.offered), 4), d.why,
                     "exact" if (d.taker is not None and exact is not None and d.taker == exact.id) else
                     "fallback" if d.taker is not None else "nobody")
            part.sig(shape)
            if not o.get("sent"):
                part.inconclusive.append("call could not be sent")
                return
            if o.get("inv") != d.offered:
                got = o.get("inv")
                cls = "extra-handler" if len(got) > len(d.offered) and got[:len(d.offered)] == d.offered else \
                      "missing-handler" if got == d.offered[:len(got)] else "wrong-order-or-handler"
                viol("dispatch-order:%s" % cls, "call to %s was offered to handlers %s, model says %s" % (path, got, d.offered), i, d.offered, o)
                continue
            if d.taker is not None:
                if o.get("type") != 2 or o.get("from") != d.taker:
                    viol("reply:not-from-taker", "call to %s taken by handler %d but the caller received %s" % (path, d.taker, o), i, d.taker, o)
                part.count("call-handled")
            else:
                if o.get("type") != 3:
                    viol("reply:no-error-when-declined", "nobody took the call to %s but the caller received %s" % (path, o), i, d.error, o)
                elif o.get("err") != d.error:
                    if d.error == objtree.UNKNOWN_OBJECT and o.get("err") == objtree.UNKNOWN_METHOD:
                        ever = root_flag.get("ever", set())
                        if root_flag["fallback"]:
                            key = DEVIATION_UNKNOWN_OBJECT
                        elif p == ():
                            key = DEVIATION_UNKNOWN_OBJECT + ":the-root-node-itself"
                        elif any(p[:n] in ever for n in range(1, len(p) + 1)):
                            key = DEVIATION_UNKNOWN_OBJECT + ":below-a-former-fallback"
                        else:
                            key = DEVIATION_UNKNOWN_OBJECT + ":root-last-registered-as-plain-object"
                        part.count("unknown-object-expected:" + key.rsplit(":", 1)[-1])
                    elif d.error == objtree.UNKNOWN_METHOD and o.get("err") == objtree.UNKNOWN_OBJECT:
                        key = "error-name:unknown-method-reported-as-unknown-object:" + d.why
                    else:
                        key = "error-name:other"
                    viol(key, "call to %s (%s): automatic error %s, expected %s" % (path, d.why, o.get("err"), d.error), i, d.error, o)
                part.count("call-error:" + d.why)
        elif kind == "P":
            part.sig("ping", model.is_registered(path))
            d = model.dispatch(path)
            # Peer is built in: it is answered by the library whatever is registered
            if o.get("type") != 2 or o.get("sig") != "" or o.get("inv"):
                viol("peer-ping", "Peer.Ping to %s was not answered by the built-in handler: %s" % (path, o), i, "empty METHOD_RETURN", o)
            part.count("ping")
        elif kind == "I":
            d = model.dispatch(path)
            part.sig("introspect", d.taker is not None, _cap(len(model.children(path)), 3))
            if o.get("inv") != d.offered:
                viol("dispatch-order:introspect", "Introspect call to %s was offered to %s, model says %s" % (path, o.get("inv"), d.offered), i, d.offered, o)
            elif d.taker is not None:
                if o.get("from") != d.taker:
                    viol("reply:not-from-taker", "Introspect to %s taken by %d, caller received %s" % (path, d.taker, o), i, d.taker, o)
            elif o.get("type") == 2 and "xml" in o:
                xml = bytes.fromhex(o["xml"]).decode("utf-8", "replace")
                kids = sorted(re.findall(r'<node name="([^"]*)"\s*/>', xml))
                if kids != model.children(path):
                    viol("children:introspect", "built-in Introspect of %s lists %s, registered tree has %s" % (path, kids, model.children(path)),
                         i, model.children(path), kids)
                part.count("introspect-children-compared")
            part.count("introspect")
    # teardown: every handler still registered is released exactly once
    want = sorted(r.id for r in model.reg.values())
    got = res.get("final_unreg", [])
    if sorted(got) != want:
        part.violation("%s:unregister-callback:at-finalize" % PROP,
                       "finalizing the connection released handlers %s, still registered were %s" % (sorted(got), want),
                       {"script": line, "expected": want, "observed": got})
    part.count("histories-judged")


def _worker(args):
    seed, shard, count, exe = args
    rng = gen.rng_for(seed, PROP, shard)
    part = report.Part()
    hist = [make_history(rng) for _ in range(count)]
    rundir = tempfile.mkdtemp(prefix="verif-c20-")
    try:
        res = hrun.run_cases(exe, [script_line(h) for h in hist], env={"VERIF_RUNDIR": rundir}, per_batch_timeout=1800)
    finally:
        shutil.rmtree(rundir, ignore_errors=True)
    for i, h in enumerate(hist):
        part.evaluations += 1
        judge(part, h, res[i])
        if shard == 0 and i < 2:
            part.sample({"script": script_line(h)[:1500], "result": json.dumps(res[i])[:1500]})
    for extra in res[len(hist):]:
        br = extra.get("batch_report") if isinstance(extra, dict) else None
        if br:
            cls = br["class"]
            part.violation("%s:%s:%s" % (PROP, cls[0], cls[1]), "report at harness exit", {"stderr": br["stderr"][-3000:]})
    return part


def run(tier, seed, replay=None, scale=1.0):
    r = report.Run(PROP, tier)
    r.rule = RULE
    b = build.build("asan")
    r.builds.append(b.info())
    exe = b.harness("h_objtree", testutils=True)
    if replay:
        w = json.load(open(replay))["witness"]
        ops = parse_script(w["script"])
        rundir = tempfile.mkdtemp(prefix="verif-c20-")
        try:
            res = hrun.run_cases(exe, [script_line(ops)], env={"VERIF_RUNDIR": rundir})
        finally:
            shutil.rmtree(rundir, ignore_errors=True)
        part = report.Part()
        part.evaluations = 1
        judge(part, ops, res[0])
        r.merge(part)
        return r.finish()
    total = int((2000 if tier == "quick" else 60000) * scale)
    nshards = 16 if tier == "quick" else 64
    per = max(1, total // nshards)
    shards = [(seed, i, per, exe) for i in range(nshards)]
    for part in report.run_sharded(_worker, shards):
        r.merge(part)
    full = scale >= 1
    r.require("histories-judged", 1000 if full else 1)
    r.require("call-handled", 2000 if full else 1)
    r.require("call-error:registered", 200 if full else 1)
    r.require("call-error:ancestor-of-registered", 200 if full else 1)
    r.require("call-error:below-fallback", 200 if full else 1)
    r.require("call-error:unknown-object", 200 if full else 1)
    r.require("self-unregistrations-from-a-handler", 100 if full else 1)
    r.require("oom-call-runs", 500 if full else 1)
    r.require("register-occupied", 200 if full else 1)
    r.require("unregister", 1000 if full else 1)
    r.require("list-compared", 500 if full else 1)
    r.assumptions = ["model vf/models/objtree.py transcribes the property statement and the registration API documentation",
                     "handlers live on the server-side DBusConnection of an in-process DBusServer; calls arrive over a real "
                     "unix socket from a private client connection in the same process (single thread, test-utils main loop)",
                     "unregistering a free path is API misuse and is never generated"]
    return r.finish()
