/* C08 executor: drives a server-side DBusAuth object.  Dumb on purpose: it creates the object as
 * told, feeds the client bytes in the given chunk sizes and prints what came back.  All judgement
 * happens in Python against vf/sasl.py.
 *
 * stdin, one command per line, every command answered by exactly one JSON line (flushed):
 *
 *   C <params> <stream hex|-> <c1,c2,...|->     complete case: new object, feed, end
 *   N <params>                                  new object (interactive mode)
 *   F <stream hex|-> <c1,c2,...|->              feed more client bytes into the current object
 *   E                                           end: final state, identity, unused bytes; destroy
 *
 *   <params> = <mechs> <uid> <pid> <context hex> <fdpossible> <home> <sendquantum> <guid>
 *     mechs        comma-separated allowed mechanisms, or * = do not call _dbus_auth_set_mechanisms
 *     uid, pid     decimal socket credentials, - = absent (neither -> _dbus_auth_set_credentials not called)
 *     context hex  cookie context (- = leave the default)
 *     fdpossible   0|1 -> _dbus_auth_set_unix_fd_possible
 *     home         directory exported as HOME and DBUS_TEST_HOMEDIR before anything else (- = untouched)
 *     sendquantum  0 = acknowledge all outgoing bytes at once, n = _dbus_auth_bytes_sent in pieces of n
 *     guid         server guid (hex text)
 *
 * output:
 *   {"k":"fed","steps":[[<bytes fed so far>,"<hex of bytes the server sent>","<state>"],...]}
 *   {"k":"end","state":..,"uid":n|null,"pid":n|null,"unused":"hex"|null,"fdneg":0|1,"fed":n}
 *   C prints both merged ("k":"case").  state: WAIT MEM SEND DISC AUTH
 * Once the object reports DISC or AUTH no further bytes are fed (the transport would not either).
 */
#include "hcommon.h"
#include <dbus/dbus-internals.h>
#include <dbus/dbus-string.h>
#include <dbus/dbus-credentials.h>
#include <dbus/dbus-auth.h>

static DBusAuth *auth;
static long fed_total;
static int send_quantum;
static DBusAuthState last_state;
static char **mech_array;

static const char *
state_name (DBusAuthState s)
{
  switch (s)
    {
    case DBUS_AUTH_STATE_WAITING_FOR_INPUT: return "WAIT";
    case DBUS_AUTH_STATE_WAITING_FOR_MEMORY: return "MEM";
    case DBUS_AUTH_STATE_HAVE_BYTES_TO_SEND: return "SEND";
    case DBUS_AUTH_STATE_NEED_DISCONNECT: return "DISC";
    case DBUS_AUTH_STATE_AUTHENTICATED: return "AUTH";
    case DBUS_AUTH_STATE_INVALID:
    default: return "INVALID";
    }
}

static void
drop_auth (void)
{
  if (auth != NULL)
    {
      _dbus_auth_unref (auth);
      auth = NULL;
    }
  if (mech_array != NULL)
    {
      int i;
      for (i = 0; mech_array[i] != NULL; i++) free (mech_array[i]);
      free (mech_array);
      mech_array = NULL;
    }
}

/* splits at single spaces in place; returns number of tokens */
static int
split (char *s, char **tok, int max)
{
  int n = 0;
  while (n < max)
    {
      char *sp;
      tok[n++] = s;
      sp = strchr (s, ' ');
      if (sp == NULL) break;
      *sp = 0;
      s = sp + 1;
    }
  return n;
}

static int
new_auth (char **p)
{
  const char *mechs = p[0], *uid = p[1], *pid = p[2], *ctx = p[3], *fd = p[4], *home = p[5], *sq = p[6], *guid = p[7];
  DBusString g;

  drop_auth ();
  fed_total = 0;
  last_state = DBUS_AUTH_STATE_WAITING_FOR_INPUT;
  send_quantum = atoi (sq);

  if (strcmp (home, "-") != 0)
    {
      setenv ("HOME", home, 1);
      setenv ("DBUS_TEST_HOMEDIR", home, 1);
    }

  _dbus_string_init_const (&g, guid);
  auth = _dbus_auth_server_new (&g);
  if (auth == NULL) return 0;

  if (strcmp (mechs, "*") != 0)
    {
      int n = 1, i = 0;
      const char *c;
      char *copy = strdup (mechs), *s = copy;
      for (c = mechs; *c; c++) if (*c == ',') n++;
      mech_array = calloc ((size_t) n + 1, sizeof (char *));
      while (s != NULL)
        {
          char *comma = strchr (s, ',');
          if (comma) *comma = 0;
          mech_array[i++] = strdup (s);
          s = comma ? comma + 1 : NULL;
        }
      free (copy);
      if (!_dbus_auth_set_mechanisms (auth, (const char **) mech_array)) return 0;
    }

  if (strcmp (uid, "-") != 0 || strcmp (pid, "-") != 0)
    {
      DBusCredentials *cr = _dbus_credentials_new ();
      if (cr == NULL) return 0;
      if (strcmp (uid, "-") != 0 && !_dbus_credentials_add_unix_uid (cr, (dbus_uid_t) strtoul (uid, NULL, 10))) return 0;
      if (strcmp (pid, "-") != 0 && !_dbus_credentials_add_pid (cr, (dbus_pid_t) strtoul (pid, NULL, 10))) return 0;
      if (!_dbus_auth_set_credentials (auth, cr)) return 0;
      _dbus_credentials_unref (cr);
    }

  if (strcmp (ctx, "-") != 0)
    {
      unsigned char *raw = NULL;
      long n = hc_unhex (ctx, &raw);
      DBusString c;
      if (n < 0) return 0;
      _dbus_string_init_const_len (&c, (const char *) raw, (int) n);
      if (!_dbus_auth_set_context (auth, &c)) return 0;
      free (raw);
    }

  _dbus_auth_set_unix_fd_possible (auth, atoi (fd) ? TRUE : FALSE);
  return 1;
}

/* feed one chunk, drain the outgoing buffer, print one step */
static void
feed_chunk (const unsigned char *p, long n, int first)
{
  DBusString *buf = NULL;
  const DBusString *out;
  DBusAuthState st;
  int guard = 0;
  static const char d[] = "0123456789abcdef";

  _dbus_auth_get_buffer (auth, &buf);
  if (!_dbus_string_append_len (buf, (const char *) p, (int) n))
    {
      _dbus_auth_return_buffer (auth, buf);
      printf ("%s[%ld,\"\",\"OOM\"]", first ? "" : ",", fed_total);
      return;
    }
  _dbus_auth_return_buffer (auth, buf);
  fed_total += n;

  printf ("%s[%ld,\"", first ? "" : ",", fed_total);
  for (;;)
    {
      st = _dbus_auth_do_work (auth);
      if (st != DBUS_AUTH_STATE_HAVE_BYTES_TO_SEND || guard++ > 200000)
        break;
      out = NULL;
      if (_dbus_auth_get_bytes_to_send (auth, &out) && out != NULL)
        {
          int len = _dbus_string_get_length (out);
          int take = (send_quantum > 0 && send_quantum < len) ? send_quantum : len;
          const unsigned char *b = (const unsigned char *) _dbus_string_get_const_data (out);
          int i;
          for (i = 0; i < take; i++) { putchar (d[b[i] >> 4]); putchar (d[b[i] & 15]); }
          _dbus_auth_bytes_sent (auth, take);
        }
      else
        break;
    }
  last_state = st;
  printf ("\",\"%s\"]", state_name (st));
}

static void
do_feed (const char *hex, const char *chunks)
{
  unsigned char *buf = NULL;
  long n = hc_unhex (hex, &buf), off = 0;
  const char *cp = chunks;
  int first = 1;

  fputs ("\"steps\":[", stdout);
  if (n < 0) { fputs ("],\"bad_input\":1", stdout); return; }
  while (off < n)
    {
      long take;
      if (last_state == DBUS_AUTH_STATE_NEED_DISCONNECT || last_state == DBUS_AUTH_STATE_AUTHENTICATED ||
          last_state == DBUS_AUTH_STATE_WAITING_FOR_MEMORY)
        break;
      if (cp == NULL || *cp == '-' || *cp == 0) take = n - off;
      else
        {
          take = strtol (cp, (char **) &cp, 10);
          if (*cp == ',') cp++;
          if (take > n - off) take = n - off;
          if (take <= 0) take = 1;
        }
      feed_chunk (buf + off, take, first);
      first = 0;
      off += take;
    }
  free (buf);
  fputs ("]", stdout);
}

static void
do_end (void)
{
  DBusAuthState st = _dbus_auth_do_work (auth);
  printf ("\"state\":\"%s\",\"fed\":%ld", state_name (st), fed_total);
  if (st == DBUS_AUTH_STATE_AUTHENTICATED)
    {
      DBusCredentials *id = _dbus_auth_get_identity (auth);
      dbus_uid_t uid = id ? _dbus_credentials_get_unix_uid (id) : DBUS_UID_UNSET;
      dbus_pid_t pid = id ? _dbus_credentials_get_pid (id) : DBUS_PID_UNSET;
      if (uid == DBUS_UID_UNSET) fputs (",\"uid\":null", stdout);
      else printf (",\"uid\":%lu", (unsigned long) uid);
      if (pid == DBUS_PID_UNSET) fputs (",\"pid\":null", stdout);
      else printf (",\"pid\":%lu", (unsigned long) pid);
      printf (",\"anon\":%d", id ? (int) _dbus_credentials_are_anonymous (id) : -1);
    }
  else
    fputs (",\"uid\":null,\"pid\":null,\"anon\":-1", stdout);
  if (st == DBUS_AUTH_STATE_AUTHENTICATED || st == DBUS_AUTH_STATE_NEED_DISCONNECT)
    {
      const DBusString *un = NULL;
      _dbus_auth_get_unused_bytes (auth, &un);
      fputs (",\"unused\":", stdout);
      if (un != NULL) hc_puthex (stdout, _dbus_string_get_const_data (un), (size_t) _dbus_string_get_length (un));
      else fputs ("null", stdout);
    }
  else
    fputs (",\"unused\":null", stdout);
  printf (",\"fdneg\":%d", (int) _dbus_auth_get_unix_fd_negotiated (auth));
  drop_auth ();
}

int main (void)
{
  char *line;
  setvbuf (stdout, NULL, _IOFBF, 1 << 16);
  while ((line = hc_readline ()) != NULL)
    {
      char *tok[12];
      int n = split (line, tok, 12);
      if (n >= 11 && strcmp (tok[0], "C") == 0)
        {
          if (!new_auth (tok + 1)) printf ("{\"k\":\"setup-failed\"}\n");
          else
            {
              fputs ("{\"k\":\"case\",", stdout);
              do_feed (tok[9], tok[10]);
              fputc (',', stdout);
              do_end ();
              fputs ("}\n", stdout);
            }
        }
      else if (n >= 9 && strcmp (tok[0], "N") == 0)
        {
          if (!new_auth (tok + 1)) printf ("{\"k\":\"setup-failed\"}\n");
          else printf ("{\"k\":\"new\"}\n");
        }
      else if (n >= 3 && strcmp (tok[0], "F") == 0 && auth != NULL)
        {
          fputs ("{\"k\":\"fed\",", stdout);
          do_feed (tok[1], tok[2]);
          fputs ("}\n", stdout);
        }
      else if (strcmp (tok[0], "E") == 0 && auth != NULL)
        {
          fputs ("{\"k\":\"end\",", stdout);
          do_end ();
          fputs ("}\n", stdout);
        }
      else
        printf ("{\"k\":\"skipped\"}\n");
      fflush (stdout);
      free (line);
    }
  drop_auth ();
  dbus_shutdown ();
  return 0;
}
