/* C02 executor: interprets one message-construction program per stdin line through the public
 * libdbus construction API and prints what came out.  No judgement here.
 *
 * A line is a space-separated token list, executed left to right.  Strings are "x<hex>" ("x" alone is
 * the empty string) or "-" for NULL.  Integers are decimal; DOUBLE values are given as their 64-bit
 * pattern and appended through memcpy.
 *
 *   N <type>                              dbus_message_new
 *   NC <dest|-> <path> <iface|-> <member> dbus_message_new_method_call
 *   NS <path> <iface> <member>            dbus_message_new_signal
 *   NR <serial> <sender|->                dbus_message_new_method_return (of a call with that serial/sender)
 *   NE <serial> <sender|-> <name> <msg|-> dbus_message_new_error
 *   P|I|M|E|D|S|C <str|->                 set_path/interface/member/error_name/destination/sender/container_instance
 *   R <u32>                               set_reply_serial
 *   FN|FA|FI <0|1>                        set_no_reply / set_auto_start / set_allow_interactive_authorization
 *   SER <u32>                             set_serial
 *   B <code> <value>                      dbus_message_iter_append_basic on the innermost open iterator
 *   O a <sig> | O v <sig> | O r | O e     dbus_message_iter_open_container
 *   Z                                     dbus_message_iter_close_container
 *   F <code> <n> <hex|->                  dbus_message_iter_append_fixed_array (n elements, native bytes)
 *   AA <code> <value>                     dbus_message_append_args (one basic argument)
 *   AF <code> <n> <hex|->                 dbus_message_append_args (DBUS_TYPE_ARRAY of a fixed type)
 *   AS <code> <n> <str>...                dbus_message_append_args (DBUS_TYPE_ARRAY of s/o/g)
 *   IA                                    forget the top-level append iterator (next use re-initialises it)
 *   X <hex>                               the same message wire-encoded in the non-native byte order
 *
 * After the program: marshal; dump; demarshal(bytes) -> dump+marshal; copy -> dump, serial, marshal after
 * set_serial; native->foreign swap of a demarshalled copy through _dbus_marshal_byteswap +
 * _dbus_header_byteswap -> marshal, then iterator init (libdbus swaps it back) -> dump+marshal;
 * foreign->native: demarshal(X) -> marshal (no swap yet), iterator init -> dump+marshal.
 * stdout: one JSON object per line.
 */
#include "hcommon.h"
#include <dbus/dbus-internals.h>
#include <dbus/dbus-string.h>
#include <dbus/dbus-message-internal.h>
#include <dbus/dbus-message-private.h>
#include <dbus/dbus-marshal-header.h>
#include <dbus/dbus-marshal-byteswap.h>

static unsigned long case_no = 0;

void __asan_on_error (void);
void __asan_on_error (void)
{
  fprintf (stderr, "VERIF-CASE %lu\n", case_no);
}

#define MAX_DEPTH 80

/* per-case arena of decoded strings / buffers */
static void **arena = NULL;
static size_t arena_n = 0, arena_cap = 0;

static void *arena_keep (void *p)
{
  if (arena_n == arena_cap)
    {
      arena_cap = arena_cap ? arena_cap * 2 : 64;
      arena = realloc (arena, arena_cap * sizeof (void *));
    }
  arena[arena_n++] = p;
  return p;
}

static void arena_free (void)
{
  size_t i;
  for (i = 0; i < arena_n; i++) free (arena[i]);
  arena_n = 0;
}

/* "x<hex>" -> NUL-terminated string, "-" -> NULL; *bad set on syntax error */
static char *tok_str (const char *t, int *bad)
{
  unsigned char *b = NULL;
  long n;
  char *s;
  if (t == NULL) { *bad = 1; return NULL; }
  if (t[0] == '-' && t[1] == 0) return NULL;
  if (t[0] != 'x') { *bad = 1; return NULL; }
  if (t[1] == 0)
    {
      s = malloc (1); s[0] = 0;
      return arena_keep (s);
    }
  n = hc_unhex (t + 1, &b);
  if (n < 0) { *bad = 1; return NULL; }
  s = malloc ((size_t) n + 1);
  memcpy (s, b, (size_t) n);
  s[n] = 0;
  free (b);
  return arena_keep (s);
}

static void put_marshal (FILE *f, DBusMessage *m)
{
  char *buf = NULL; int len = 0;
  if (m != NULL && dbus_message_marshal (m, &buf, &len))
    { hc_puthex (f, buf, (size_t) len); dbus_free (buf); }
  else fputs ("null", f);
}

/* value token -> storage suitable for append_basic; returns pointer to pass */
typedef union { unsigned char y; dbus_bool_t b; dbus_uint16_t q; dbus_uint32_t u; dbus_uint64_t t; const char *s; } BasicVal;

static int parse_basic (int code, const char *tok, BasicVal *v, int *bad)
{
  unsigned long long n;
  if (tok == NULL) { *bad = 1; return 0; }
  switch (code)
    {
    case 's': case 'o': case 'g':
      v->s = tok_str (tok, bad);
      if (v->s == NULL) *bad = 1;
      return 1;
    default: break;
    }
  n = strtoull (tok, NULL, 10);
  switch (code)
    {
    case 'y': v->y = (unsigned char) n; return 1;
    case 'b': v->b = (dbus_bool_t) n; return 1;
    case 'n': case 'q': v->q = (dbus_uint16_t) n; return 1;
    case 'i': case 'u': v->u = (dbus_uint32_t) n; return 1;
    case 'x': case 't': case 'd': { uint64_t w = (uint64_t) n; memcpy (&v->t, &w, 8); return 1; }
    default: *bad = 1; return 0;
    }
}

static DBusMessage *make_call_for_reply (const char *serial_tok, const char *sender)
{
  DBusMessage *call = dbus_message_new_method_call (NULL, "/", NULL, "M");
  if (call == NULL) return NULL;
  dbus_message_set_serial (call, (dbus_uint32_t) strtoul (serial_tok, NULL, 10));
  if (sender != NULL && !dbus_message_set_sender (call, sender))
    { dbus_message_unref (call); return NULL; }
  return call;
}

static void run_program (char *line)
{
  char **tv = NULL;
  size_t tn = 0, tcap = 0, i;
  char *p = line;
  DBusMessage *m = NULL;
  DBusMessageIter stack[MAX_DEPTH];
  int depth = 0;          /* stack[0] = top-level append iterator */
  int top_init = 0;
  int bad = 0;            /* malformed program (generator bug) */
  long fail_at = -1;      /* API call returned FALSE / NULL */
  const char *foreign_hex = NULL;

  while (*p)
    {
      while (*p == ' ') p++;
      if (!*p) break;
      if (tn == tcap) { tcap = tcap ? tcap * 2 : 64; tv = realloc (tv, tcap * sizeof (char *)); }
      tv[tn++] = p;
      while (*p && *p != ' ') p++;
      if (*p) *p++ = 0;
    }

#define ARG(k) ((i + (k) < tn) ? tv[i + (k)] : NULL)
#define NEED_MSG() do { if (m == NULL) { bad = 1; goto done; } } while (0)
#define TOP() do { if (depth == 0 && !top_init) { dbus_message_iter_init_append (m, &stack[0]); top_init = 1; } } while (0)
#define FAILED() do { fail_at = (long) i; goto done; } while (0)

  i = 0;
  while (i < tn && !bad)
    {
      const char *op = tv[i];
      if (strcmp (op, "N") == 0)
        {
          if (m != NULL || ARG (1) == NULL) { bad = 1; break; }
          m = dbus_message_new (atoi (ARG (1)));
          if (m == NULL) FAILED ();
          i += 2;
        }
      else if (strcmp (op, "NC") == 0)
        {
          char *d, *pa, *ifc, *me;
          if (m != NULL || ARG (4) == NULL) { bad = 1; break; }
          d = tok_str (ARG (1), &bad); pa = tok_str (ARG (2), &bad);
          ifc = tok_str (ARG (3), &bad); me = tok_str (ARG (4), &bad);
          if (bad) break;
          m = dbus_message_new_method_call (d, pa, ifc, me);
          if (m == NULL) FAILED ();
          i += 5;
        }
      else if (strcmp (op, "NS") == 0)
        {
          char *pa, *ifc, *me;
          if (m != NULL || ARG (3) == NULL) { bad = 1; break; }
          pa = tok_str (ARG (1), &bad); ifc = tok_str (ARG (2), &bad); me = tok_str (ARG (3), &bad);
          if (bad) break;
          m = dbus_message_new_signal (pa, ifc, me);
          if (m == NULL) FAILED ();
          i += 4;
        }
      else if (strcmp (op, "NR") == 0)
        {
          char *snd; DBusMessage *call;
          if (m != NULL || ARG (2) == NULL) { bad = 1; break; }
          snd = tok_str (ARG (2), &bad);
          if (bad) break;
          call = make_call_for_reply (ARG (1), snd);
          if (call == NULL) FAILED ();
          m = dbus_message_new_method_return (call);
          dbus_message_unref (call);
          if (m == NULL) FAILED ();
          i += 3;
        }
      else if (strcmp (op, "NE") == 0)
        {
          char *snd, *name, *emsg; DBusMessage *call;
          if (m != NULL || ARG (4) == NULL) { bad = 1; break; }
          snd = tok_str (ARG (2), &bad); name = tok_str (ARG (3), &bad); emsg = tok_str (ARG (4), &bad);
          if (bad) break;
          call = make_call_for_reply (ARG (1), snd);
          if (call == NULL) FAILED ();
          m = dbus_message_new_error (call, name, emsg);
          dbus_message_unref (call);
          if (m == NULL) FAILED ();
          i += 5;
        }
      else if (op[0] && op[1] == 0 && strchr ("PIMEDSC", op[0]) != NULL)
        {
          char *s; dbus_bool_t ok = FALSE;
          NEED_MSG ();
          if (depth != 0) { bad = 1; break; }
          s = tok_str (ARG (1), &bad);
          if (bad) break;
          switch (op[0])
            {
            case 'P': ok = dbus_message_set_path (m, s); break;
            case 'I': ok = dbus_message_set_interface (m, s); break;
            case 'M': ok = dbus_message_set_member (m, s); break;
            case 'E': ok = dbus_message_set_error_name (m, s); break;
            case 'D': ok = dbus_message_set_destination (m, s); break;
            case 'S': ok = dbus_message_set_sender (m, s); break;
            case 'C': ok = dbus_message_set_container_instance (m, s); break;
            default: break;
            }
          if (!ok) FAILED ();
          i += 2;
        }
      else if (strcmp (op, "R") == 0)
        {
          NEED_MSG ();
          if (ARG (1) == NULL) { bad = 1; break; }
          if (!dbus_message_set_reply_serial (m, (dbus_uint32_t) strtoul (ARG (1), NULL, 10))) FAILED ();
          i += 2;
        }
      else if (strcmp (op, "FN") == 0 || strcmp (op, "FA") == 0 || strcmp (op, "FI") == 0)
        {
          int v;
          NEED_MSG ();
          if (ARG (1) == NULL) { bad = 1; break; }
          v = atoi (ARG (1));
          if (op[1] == 'N') dbus_message_set_no_reply (m, v);
          else if (op[1] == 'A') dbus_message_set_auto_start (m, v);
          else dbus_message_set_allow_interactive_authorization (m, v);
          i += 2;
        }
      else if (strcmp (op, "SER") == 0)
        {
          NEED_MSG ();
          if (ARG (1) == NULL) { bad = 1; break; }
          dbus_message_set_serial (m, (dbus_uint32_t) strtoul (ARG (1), NULL, 10));
          i += 2;
        }
      else if (strcmp (op, "IA") == 0)
        {
          NEED_MSG ();
          if (depth != 0) { bad = 1; break; }
          top_init = 0;
          i += 1;
        }
      else if (strcmp (op, "B") == 0)
        {
          BasicVal v; int code;
          NEED_MSG ();
          if (ARG (2) == NULL) { bad = 1; break; }
          code = ARG (1)[0];
          memset (&v, 0, sizeof v);
          parse_basic (code, ARG (2), &v, &bad);
          if (bad) break;
          TOP ();
          if (!dbus_message_iter_append_basic (&stack[depth], code, &v)) FAILED ();
          i += 3;
        }
      else if (strcmp (op, "O") == 0)
        {
          int kind; char *sig = NULL;
          NEED_MSG ();
          if (ARG (1) == NULL || depth + 1 >= MAX_DEPTH) { bad = 1; break; }
          kind = ARG (1)[0];
          TOP ();
          if (kind == 'a' || kind == 'v')
            {
              sig = tok_str (ARG (2), &bad);
              if (bad || sig == NULL) { bad = 1; break; }
              if (!dbus_message_iter_open_container (&stack[depth], kind == 'a' ? DBUS_TYPE_ARRAY : DBUS_TYPE_VARIANT,
                                                     sig, &stack[depth + 1])) FAILED ();
              i += 3;
            }
          else if (kind == 'r' || kind == 'e')
            {
              if (!dbus_message_iter_open_container (&stack[depth], kind == 'r' ? DBUS_TYPE_STRUCT : DBUS_TYPE_DICT_ENTRY,
                                                     NULL, &stack[depth + 1])) FAILED ();
              i += 2;
            }
          else { bad = 1; break; }
          depth++;
        }
      else if (strcmp (op, "Z") == 0)
        {
          NEED_MSG ();
          if (depth == 0) { bad = 1; break; }
          if (!dbus_message_iter_close_container (&stack[depth - 1], &stack[depth])) { depth--; FAILED (); }
          depth--;
          i += 1;
        }
      else if (strcmp (op, "F") == 0 || strcmp (op, "AF") == 0)
        {
          unsigned char *buf = NULL; const void *ptr; long nb; int code, n;
          NEED_MSG ();
          if (ARG (3) == NULL) { bad = 1; break; }
          code = ARG (1)[0];
          n = atoi (ARG (2));
          nb = hc_unhex (ARG (3), &buf);
          if (nb < 0 || nb != (long) n * hc_fixed_size (code) || hc_fixed_size (code) == 0) { bad = 1; break; }
          arena_keep (buf);
          ptr = buf;
          if (op[0] == 'F')
            {
              if (depth == 0) { bad = 1; break; }
              if (!dbus_message_iter_append_fixed_array (&stack[depth], code, &ptr, n)) FAILED ();
            }
          else
            {
              if (depth != 0) { bad = 1; break; }
              top_init = 0;
              if (!dbus_message_append_args (m, DBUS_TYPE_ARRAY, code, &ptr, n, DBUS_TYPE_INVALID)) FAILED ();
            }
          i += 4;
        }
      else if (strcmp (op, "AA") == 0)
        {
          BasicVal v; int code;
          NEED_MSG ();
          if (ARG (2) == NULL || depth != 0) { bad = 1; break; }
          code = ARG (1)[0];
          memset (&v, 0, sizeof v);
          parse_basic (code, ARG (2), &v, &bad);
          if (bad) break;
          top_init = 0;
          if (!dbus_message_append_args (m, code, &v, DBUS_TYPE_INVALID)) FAILED ();
          i += 3;
        }
      else if (strcmp (op, "AS") == 0)
        {
          int code, n, k; const char **arr;
          NEED_MSG ();
          if (ARG (2) == NULL || depth != 0) { bad = 1; break; }
          code = ARG (1)[0];
          n = atoi (ARG (2));
          if (n < 0 || i + 3 + (size_t) n > tn) { bad = 1; break; }
          arr = arena_keep (malloc (sizeof (char *) * (size_t) (n + 1)));
          for (k = 0; k < n; k++)
            {
              arr[k] = tok_str (tv[i + 3 + k], &bad);
              if (arr[k] == NULL) bad = 1;
            }
          if (bad) break;
          top_init = 0;
          if (!dbus_message_append_args (m, DBUS_TYPE_ARRAY, code, &arr, n, DBUS_TYPE_INVALID)) FAILED ();
          i += 3 + (size_t) n;
        }
      else if (strcmp (op, "X") == 0)
        {
          if (ARG (1) == NULL) { bad = 1; break; }
          foreign_hex = ARG (1);
          i += 2;
        }
      else
        {
          bad = 1;
        }
    }

 done:
  if (bad || m == NULL || depth != 0)
    {
      /* never judge a malformed program: close nothing, report it */
      printf ("{\"k\":\"bad-program\",\"at\":%ld,\"depth\":%d,\"fail\":%ld}\n", (long) i, depth, fail_at);
      /* open containers cannot be closed meaningfully; the message is dropped */
      if (m != NULL && depth == 0) dbus_message_unref (m);
      free (tv);
      return;
    }

  printf ("{\"k\":\"B\",\"fail\":%ld,\"bytes\":", fail_at);
  if (fail_at >= 0)
    {
      printf ("null}\n");
      dbus_message_unref (m);
      free (tv);
      return;
    }

  {
    char *buf = NULL; int len = 0;
    DBusMessage *dm = NULL, *cp = NULL, *sw = NULL;
    DBusError err;

    if (dbus_message_marshal (m, &buf, &len)) hc_puthex (stdout, buf, (size_t) len);
    else { fputs ("null", stdout); buf = NULL; }

    fputs (",\"orig\":", stdout);
    hc_dump_message (stdout, m, 1);

    /* demarshal -> dump -> marshal */
    dbus_error_init (&err);
    if (buf != NULL)
      {
        /* exactly-sized copy so that over-reads hit a red zone */
        char *exact = malloc (len > 0 ? (size_t) len : 1);
        memcpy (exact, buf, (size_t) len);
        dm = dbus_message_demarshal (exact, len, &err);
        free (exact);
      }
    fputs (",\"dm_err\":", stdout);
    if (dbus_error_is_set (&err)) printf ("\"%s\"", err.name); else fputs ("null", stdout);
    dbus_error_free (&err);
    fputs (",\"dm\":", stdout);
    if (dm != NULL) hc_dump_message (stdout, dm, 1); else fputs ("null", stdout);

    /* copy */
    cp = dbus_message_copy (m);
    fputs (",\"copy\":", stdout);
    if (cp != NULL)
      {
        hc_dump_message (stdout, cp, 0);
        printf (",\"copy_serial\":%u", (unsigned) dbus_message_get_serial (cp));
        dbus_message_set_serial (cp, dbus_message_get_serial (m));
        fputs (",\"copy_bytes\":", stdout);
        put_marshal (stdout, cp);
        dbus_message_unref (cp);
      }
    else fputs ("null", stdout);

    /* native -> foreign on a fresh demarshalled message */
    dbus_error_init (&err);
    if (buf != NULL) sw = dbus_message_demarshal (buf, len, &err);
    dbus_error_free (&err);
    fputs (",\"n2f\":", stdout);
    if (sw != NULL)
      {
        DBusString sig;
        int old_order = _dbus_header_get_byte_order (&sw->header);
        int new_order = (old_order == DBUS_LITTLE_ENDIAN) ? DBUS_BIG_ENDIAN : DBUS_LITTLE_ENDIAN;
        const char *s = dbus_message_get_signature (sw);
        _dbus_string_init_const (&sig, s ? s : "");
        _dbus_marshal_byteswap (&sig, 0, old_order, new_order, &sw->body, 0);
        _dbus_header_byteswap (&sw->header, new_order);
        put_marshal (stdout, sw);
        fputs (",\"n2f_back\":", stdout);
        hc_dump_message (stdout, sw, 1);
        dbus_message_unref (sw);
      }
    else fputs ("null", stdout);

    /* foreign -> native */
    if (foreign_hex != NULL)
      {
        unsigned char *fb = NULL;
        long fn = hc_unhex (foreign_hex, &fb);
        DBusMessage *fm = NULL;
        dbus_error_init (&err);
        if (fn >= 0) fm = dbus_message_demarshal ((const char *) fb, (int) fn, &err);
        fputs (",\"f_err\":", stdout);
        if (dbus_error_is_set (&err)) printf ("\"%s\"", err.name); else fputs ("null", stdout);
        dbus_error_free (&err);
        fputs (",\"f_raw\":", stdout);
        put_marshal (stdout, fm);
        fputs (",\"f2n\":", stdout);
        if (fm != NULL) { hc_dump_message (stdout, fm, 1); dbus_message_unref (fm); } else fputs ("null", stdout);
        if (fn >= 0) free (fb);
      }

    if (dm != NULL) dbus_message_unref (dm);
    if (buf != NULL) dbus_free (buf);
  }
  printf ("}\n");
  dbus_message_unref (m);
  free (tv);
}

int main (void)
{
  char *line;
  setvbuf (stdout, NULL, _IOFBF, 1 << 16);
  while ((line = hc_readline ()) != NULL)
    {
      case_no++;
      run_program (line);
      arena_free ();
      fflush (stdout);
      free (line);
    }
  free (arena);
  dbus_shutdown ();
  return 0;
}
