/* C12 executor: applies a script of header edits to a message and prints the message after every step.
 * No judgement here.
 *
 * stdin line:  <full_from> <start> <op>...
 *   <full_from>  dumps number >= full_from are full dumps (hc_dump_message: accessors + body iterator +
 *                marshalled bytes; initialising the body iterator converts a non-native message to native
 *                order); earlier dumps are "light" (accessors + marshalled bytes, the body is not touched, so a
 *                non-native message stays non-native while its header is edited).  Dump 0 is the start state,
 *                dump k the state after the k-th op.  A full dump of the final state is always appended.
 *   <start>      W <hex>                         dbus_message_demarshal of these bytes
 *                L <type> <serial> <n> (<code> <value>)*n    dbus_message_new + append_args per argument
 *                                                (code 'A' = array of bytes given as hex or "-")
 *   <op>         D|S|P|I|M|E|C <x<hex>|->        set_destination/sender/path/interface/member/error_name/
 *                                                container_instance ("-" = NULL = delete)
 *                R <u32>                         set_reply_serial
 *                U                               _dbus_message_remove_unknown_fields
 * stdout: {"k":"E","start_err":..,"dumps":[d0,{"op":i,"ret":b,"d":d1},...],"final":dump}
 */
#include "hcommon.h"
#include <dbus/dbus-internals.h>
#include <dbus/dbus-string.h>
#include <dbus/dbus-message-internal.h>

static unsigned long case_no = 0;

void __asan_on_error (void);
void __asan_on_error (void)
{
  fprintf (stderr, "VERIF-CASE %lu\n", case_no);
}

static void **arena = NULL;
static size_t arena_n = 0, arena_cap = 0;

static void *arena_keep (void *p)
{
  if (arena_n == arena_cap)
    {
      arena_cap = arena_cap ? arena_cap * 2 : 64;
      arena = realloc (arena, arena_cap * sizeof (void *));
    }
  arena[arena_n++] = p;
  return p;
}

static void arena_free (void)
{
  size_t i;
  for (i = 0; i < arena_n; i++) free (arena[i]);
  arena_n = 0;
}

static char *tok_str (const char *t, int *bad)
{
  unsigned char *b = NULL;
  long n;
  char *s;
  if (t == NULL) { *bad = 1; return NULL; }
  if (t[0] == '-' && t[1] == 0) return NULL;
  if (t[0] != 'x') { *bad = 1; return NULL; }
  if (t[1] == 0)
    {
      s = malloc (1); s[0] = 0;
      return arena_keep (s);
    }
  n = hc_unhex (t + 1, &b);
  if (n < 0) { *bad = 1; return NULL; }
  /* exactly-sized so that an over-read of the value hits a red zone */
  s = malloc ((size_t) n + 1);
  memcpy (s, b, (size_t) n);
  s[n] = 0;
  free (b);
  return arena_keep (s);
}

static void dump_light (FILE *f, DBusMessage *m)
{
  char *buf = NULL; int len = 0;
  fprintf (f, "{\"light\":1,\"type\":%d,\"serial\":%u,\"reply_serial\":%u,\"no_reply\":%d,\"auto_start\":%d,\"interactive\":%d,",
           dbus_message_get_type (m), (unsigned) dbus_message_get_serial (m),
           (unsigned) dbus_message_get_reply_serial (m),
           (int) dbus_message_get_no_reply (m), (int) dbus_message_get_auto_start (m),
           (int) dbus_message_get_allow_interactive_authorization (m));
  fputs ("\"path\":", f); hc_putstr_hex (f, dbus_message_get_path (m));
  fputs (",\"interface\":", f); hc_putstr_hex (f, dbus_message_get_interface (m));
  fputs (",\"member\":", f); hc_putstr_hex (f, dbus_message_get_member (m));
  fputs (",\"error_name\":", f); hc_putstr_hex (f, dbus_message_get_error_name (m));
  fputs (",\"destination\":", f); hc_putstr_hex (f, dbus_message_get_destination (m));
  fputs (",\"sender\":", f); hc_putstr_hex (f, dbus_message_get_sender (m));
  fputs (",\"container_instance\":", f); hc_putstr_hex (f, dbus_message_get_container_instance (m));
  fputs (",\"signature\":", f); hc_putstr_hex (f, dbus_message_get_signature (m));
  fputs (",\"bytes\":", f);
  if (dbus_message_get_serial (m) != 0 && dbus_message_marshal (m, &buf, &len))
    { hc_puthex (f, buf, (size_t) len); dbus_free (buf); }
  else fputs ("null", f);
  fputc ('}', f);
}

static void dump (FILE *f, DBusMessage *m, long index, long full_from)
{
  if (index >= full_from) hc_dump_message (f, m, 1);
  else dump_light (f, m);
}

typedef union { unsigned char y; dbus_bool_t b; dbus_uint16_t q; dbus_uint32_t u; dbus_uint64_t t; const char *s; } BasicVal;

static dbus_bool_t append_local_arg (DBusMessage *m, int code, const char *tok, int *bad)
{
  BasicVal v;
  unsigned long long n;
  memset (&v, 0, sizeof v);
  if (tok == NULL) { *bad = 1; return FALSE; }
  if (code == 'A')
    {
      unsigned char *buf = NULL; const void *ptr;
      long nb = hc_unhex (tok, &buf);
      if (nb < 0) { *bad = 1; return FALSE; }
      arena_keep (buf);
      ptr = buf;
      return dbus_message_append_args (m, DBUS_TYPE_ARRAY, DBUS_TYPE_BYTE, &ptr, (int) nb, DBUS_TYPE_INVALID);
    }
  if (code == 's' || code == 'o' || code == 'g')
    {
      v.s = tok_str (tok, bad);
      if (v.s == NULL) { *bad = 1; return FALSE; }
      return dbus_message_append_args (m, code, &v, DBUS_TYPE_INVALID);
    }
  n = strtoull (tok, NULL, 10);
  switch (code)
    {
    case 'y': v.y = (unsigned char) n; break;
    case 'b': v.b = (dbus_bool_t) n; break;
    case 'n': case 'q': v.q = (dbus_uint16_t) n; break;
    case 'i': case 'u': v.u = (dbus_uint32_t) n; break;
    case 'x': case 't': case 'd': { uint64_t w = (uint64_t) n; memcpy (&v.t, &w, 8); break; }
    default: *bad = 1; return FALSE;
    }
  return dbus_message_append_args (m, code, &v, DBUS_TYPE_INVALID);
}

static void run_script (char *line)
{
  char **tv = NULL;
  size_t tn = 0, tcap = 0, i;
  char *p = line;
  DBusMessage *m = NULL;
  long full_from, step = 0;
  int bad = 0;
  DBusError err;

  while (*p)
    {
      while (*p == ' ') p++;
      if (!*p) break;
      if (tn == tcap) { tcap = tcap ? tcap * 2 : 64; tv = realloc (tv, tcap * sizeof (char *)); }
      tv[tn++] = p;
      while (*p && *p != ' ') p++;
      if (*p) *p++ = 0;
    }
#define ARG(k) ((i + (k) < tn) ? tv[i + (k)] : NULL)
  if (tn < 3) { printf ("{\"k\":\"bad-script\",\"at\":0}\n"); free (tv); return; }
  full_from = strtol (tv[0], NULL, 10);
  i = 1;
  dbus_error_init (&err);
  if (strcmp (tv[i], "W") == 0)
    {
      unsigned char *buf = NULL;
      long n = hc_unhex (tv[i + 1], &buf);
      if (n < 0) { printf ("{\"k\":\"bad-script\",\"at\":1}\n"); free (tv); return; }
      m = dbus_message_demarshal ((const char *) buf, (int) n, &err);
      free (buf);
      i += 2;
    }
  else if (strcmp (tv[i], "L") == 0)
    {
      int type, nargs, k;
      if (ARG (3) == NULL) { printf ("{\"k\":\"bad-script\",\"at\":1}\n"); free (tv); return; }
      type = atoi (ARG (1));
      nargs = atoi (ARG (3));
      m = dbus_message_new (type);
      if (m != NULL) dbus_message_set_serial (m, (dbus_uint32_t) strtoul (ARG (2), NULL, 10));
      i += 4;
      for (k = 0; k < nargs && m != NULL && !bad; k++)
        {
          if (ARG (1) == NULL) { bad = 1; break; }
          if (!append_local_arg (m, ARG (0)[0], ARG (1), &bad) && !bad)
            { dbus_message_unref (m); m = NULL; }
          i += 2;
        }
      if (bad) { printf ("{\"k\":\"bad-script\",\"at\":%ld}\n", (long) i); if (m) dbus_message_unref (m); free (tv); return; }
    }
  else
    { printf ("{\"k\":\"bad-script\",\"at\":1}\n"); free (tv); return; }

  printf ("{\"k\":\"E\",\"start_err\":");
  if (dbus_error_is_set (&err)) printf ("\"%s\"", err.name); else fputs ("null", stdout);
  dbus_error_free (&err);
  if (m == NULL)
    {
      printf (",\"dumps\":null}\n");
      free (tv);
      return;
    }
  fputs (",\"dumps\":[", stdout);
  dump (stdout, m, 0, full_from);

  while (i < tn)
    {
      const char *op = tv[i];
      dbus_bool_t ret = FALSE;
      size_t used = 0;
      if (op[0] && op[1] == 0 && strchr ("DSPIMEC", op[0]) != NULL)
        {
          char *s = tok_str (ARG (1), &bad);
          if (bad) break;
          switch (op[0])
            {
            case 'D': ret = dbus_message_set_destination (m, s); break;
            case 'S': ret = dbus_message_set_sender (m, s); break;
            case 'P': ret = dbus_message_set_path (m, s); break;
            case 'I': ret = dbus_message_set_interface (m, s); break;
            case 'M': ret = dbus_message_set_member (m, s); break;
            case 'E': ret = dbus_message_set_error_name (m, s); break;
            case 'C': ret = dbus_message_set_container_instance (m, s); break;
            default: break;
            }
          used = 2;
        }
      else if (strcmp (op, "R") == 0)
        {
          if (ARG (1) == NULL) { bad = 1; break; }
          ret = dbus_message_set_reply_serial (m, (dbus_uint32_t) strtoul (ARG (1), NULL, 10));
          used = 2;
        }
      else if (strcmp (op, "U") == 0)
        {
          ret = _dbus_message_remove_unknown_fields (m);
          used = 1;
        }
      else { bad = 1; break; }
      step++;
      printf (",{\"op\":%ld,\"ret\":%d,\"d\":", step, (int) ret);
      dump (stdout, m, step, full_from);
      fputc ('}', stdout);
      i += used;
    }
  fputs ("],\"final\":", stdout);
  hc_dump_message (stdout, m, 1);
  printf (",\"bad\":%d}\n", bad);
  dbus_message_unref (m);
  free (tv);
}

int main (void)
{
  char *line;
  setvbuf (stdout, NULL, _IOFBF, 1 << 16);
  while ((line = hc_readline ()) != NULL)
    {
      case_no++;
      run_script (line);
      arena_free ();
      fflush (stdout);
      free (line);
    }
  free (arena);
  dbus_shutdown ();
  return 0;
}
