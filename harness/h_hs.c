/* C11 (handshake boundary) executor: an in-process DBusServer on a unix socket; the harness
 * itself is the raw client.  For each case it writes the given byte stream to the socket in the
 * given chunk sizes, letting the server's main loop run to idle after every write so that the
 * server's read boundaries equal the chunk boundaries, and prints the messages the server-side
 * connection received.
 *
 * stdin:  <hex stream> <c1,c2,...|->
 * stdout: {"auth":0|1,"connected":0|1,"msgs":[...],"local_disconnected":0|1}
 */
#include "hcommon.h"
#include <test/test-utils.h>
#include <sys/socket.h>
#include <sys/un.h>
#include <errno.h>
#include <fcntl.h>

static TestMainContext *ctx;
static DBusConnection *server_conn;
static int n_msgs;
static int saw_local_disconnect;
static char *msgbuf;
static size_t msglen;
static FILE *msgf;

static DBusHandlerResult
filter (DBusConnection *c, DBusMessage *m, void *data)
{
  if (dbus_message_is_signal (m, DBUS_INTERFACE_LOCAL, "Disconnected"))
    {
      saw_local_disconnect = 1;
      return DBUS_HANDLER_RESULT_HANDLED;
    }
  if (n_msgs++) fputc (',', msgf);
  hc_dump_message (msgf, m, 1);
  return DBUS_HANDLER_RESULT_HANDLED;
}

static void
new_conn (DBusServer *server, DBusConnection *c, void *data)
{
  if (server_conn != NULL) return;
  server_conn = dbus_connection_ref (c);
  dbus_connection_set_allow_anonymous (c, FALSE);
  test_connection_setup (ctx, c);
  if (!dbus_connection_add_filter (c, filter, NULL, NULL)) exit (3);
}

static void
run_idle (void)
{
  int i;
  /* iterate until nothing happens for a few rounds */
  for (i = 0; i < 4; i++)
    {
      int guard = 0;
      while (_dbus_loop_iterate (ctx, FALSE) && guard++ < 1000) ;
      while (server_conn && dbus_connection_get_dispatch_status (server_conn) == DBUS_DISPATCH_DATA_REMAINS && guard++ < 2000)
        dbus_connection_dispatch (server_conn);
    }
}

int main (void)
{
  char *line;
  char path[128];
  char addr[160];
  DBusError err;
  DBusServer *server;
  unsigned long caseno = 0;

  setvbuf (stdout, NULL, _IOFBF, 1 << 16);
  ctx = test_main_context_get ();
  dbus_error_init (&err);
  snprintf (path, sizeof path, "%s/verif-hs-%ld", getenv ("VERIF_RUNDIR") ? getenv ("VERIF_RUNDIR") : "/tmp", (long) getpid ());
  snprintf (addr, sizeof addr, "unix:path=%s", path);
  server = dbus_server_listen (addr, &err);
  if (server == NULL) { fprintf (stderr, "listen failed: %s\n", err.message); return 3; }
  dbus_server_set_new_connection_function (server, new_conn, NULL, NULL);
  test_server_setup (ctx, server);

  while ((line = hc_readline ()) != NULL)
    {
      unsigned char *buf = NULL;
      char *sp = strchr (line, ' ');
      const char *cp;
      long n, off = 0;
      int fd;
      struct sockaddr_un sa;
      int client_closed_by_peer = 0;

      caseno++;
      if (sp) *sp++ = 0;
      cp = sp;
      n = hc_unhex (line, &buf);
      if (n < 0) { printf ("{\"k\":\"bad-input\"}\n"); free (line); continue; }

      n_msgs = 0; saw_local_disconnect = 0;
      msgf = open_memstream (&msgbuf, &msglen);

      fd = socket (AF_UNIX, SOCK_STREAM, 0);
      memset (&sa, 0, sizeof sa);
      sa.sun_family = AF_UNIX;
      strncpy (sa.sun_path, path, sizeof sa.sun_path - 1);
      if (connect (fd, (struct sockaddr *) &sa, sizeof sa) < 0) { perror ("connect"); return 3; }
      fcntl (fd, F_SETFL, O_NONBLOCK);
      run_idle ();

      while (off < n)
        {
          long take;
          ssize_t w;
          if (cp == NULL || *cp == '-' || *cp == 0) take = n - off;
          else
            {
              take = strtol (cp, (char **) &cp, 10);
              if (*cp == ',') cp++;
              if (take > n - off) take = n - off;
              if (take <= 0) take = 1;
            }
          w = send (fd, buf + off, (size_t) take, MSG_NOSIGNAL);
          if (w < 0)
            {
              if (errno == EPIPE || errno == ECONNRESET) { client_closed_by_peer = 1; break; }
              if (errno == EAGAIN) { run_idle (); continue; }
              perror ("send"); return 3;
            }
          off += w;
          run_idle ();
        }
      run_idle ();
      fclose (msgf);
      printf ("{\"auth\":%d,\"connected\":%d,\"local_disconnected\":%d,\"sent\":%ld,\"epipe\":%d,\"msgs\":[%s]}\n",
              server_conn ? (int) dbus_connection_get_is_authenticated (server_conn) : -1,
              server_conn ? (int) dbus_connection_get_is_connected (server_conn) : -1,
              saw_local_disconnect, off, client_closed_by_peer, msgbuf ? msgbuf : "");
      fflush (stdout);
      free (msgbuf); msgbuf = NULL;
      close (fd);
      run_idle ();
      if (server_conn)
        {
          if (dbus_connection_get_is_connected (server_conn))
            dbus_connection_close (server_conn);
          run_idle ();
          test_connection_shutdown (ctx, server_conn);
          dbus_connection_remove_filter (server_conn, filter, NULL);
          dbus_connection_unref (server_conn);
          server_conn = NULL;
        }
      free (buf);
      free (line);
    }
  test_server_shutdown (ctx, server);
  dbus_server_disconnect (server);
  dbus_server_unref (server);
  test_main_context_unref (ctx);
  unlink (path);
  dbus_shutdown ();
  return 0;
}
