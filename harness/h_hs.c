/* C11 (handshake boundary) executor: an in-process DBusServer on a unix socket; the harness
 * itself is the raw client.  For each case it writes the given byte stream to the socket in the
 * given chunk sizes, letting the server's main loop run to idle after every write so that the
 * server's read boundaries equal the chunk boundaries, and prints the messages the server-side
 * connection received.
 *
 * stdin:  <hex stream> <c1,c2,...|->          server connection driven by the main loop (watches)
 *         B <hex stream> <c1,...|->          server connection driven by dbus_connection_read_write_dispatch(c, 0)
 *                                            (the blocking-iteration path client applications use)
 *         O <ci> <hex stream> <c1,...|->     as B, and additionally: for every allocation index k of the processing
 *                                            of chunk number ci, and bursts of 1 and 2 failures, the whole stream is
 *                                            replayed with that allocation failing; results that differ from the
 *                                            fault-free one are printed
 *         O F <nfds> <fd chunk> <ci> <hex stream> <c1,...|->   as O, with nfds descriptors attached (SCM_RIGHTS) to the
 *                                            given chunk (the stream negotiates descriptor passing)
 * stdout: {"auth":0|1,"connected":0|1,"msgs":[...],"local_disconnected":0|1}
 *         O: {"k":"O","n_alloc":N,"runs":R,"fired":F,"ref":{...},"bad":[{"k":k,"nf":n,"out":{...}},...]}
 */
#include "hcommon.h"
#include <test/test-utils.h>
#include <sys/socket.h>
#include <sys/un.h>
#include <errno.h>
#include <fcntl.h>
#include <sys/ioctl.h>
#include <dbus/dbus-internals.h>

static TestMainContext *ctx;
static DBusConnection *server_conn;
static int n_msgs;
static int saw_local_disconnect;
static char *msgbuf;
static size_t msglen;
static FILE *msgf;
static int blocking_mode;
static int send_fds_n, send_fds_ci = -1;     /* 'OF' lines: attach this many descriptors to chunk number send_fds_ci */

static DBusHandlerResult
filter (DBusConnection *c, DBusMessage *m, void *data)
{
  if (dbus_message_is_signal (m, DBUS_INTERFACE_LOCAL, "Disconnected"))
    {
      saw_local_disconnect = 1;
      return DBUS_HANDLER_RESULT_HANDLED;
    }
  {
    /* the application's own handling of a delivered message is not under test: suspend the injector */
    int saved = _dbus_get_fail_alloc_counter ();
    _dbus_set_fail_alloc_counter (_DBUS_INT_MAX);
    if (n_msgs++) fputc (',', msgf);
    hc_dump_message (msgf, m, 1);
    _dbus_set_fail_alloc_counter (saved);
  }
  return DBUS_HANDLER_RESULT_HANDLED;
}

/* C08 (server-application layer): with VERIF_HS_USERFN=1 the server installs a unix-user function that lets every uid in
 * and records what it was called with; VERIF_HS_ANON=1 enables anonymous access */
static int userfn_calls;
static unsigned long userfn_last_uid;

static dbus_bool_t
accept_any_user (DBusConnection *c, unsigned long uid, void *data)
{
  userfn_calls++;
  userfn_last_uid = uid;
  return TRUE;
}

static void
new_conn (DBusServer *server, DBusConnection *c, void *data)
{
  if (server_conn != NULL) return;
  server_conn = dbus_connection_ref (c);
  dbus_connection_set_allow_anonymous (c, getenv ("VERIF_HS_ANON") != NULL);
  if (getenv ("VERIF_HS_USERFN") != NULL)
    dbus_connection_set_unix_user_function (c, accept_any_user, NULL, NULL);
  if (!blocking_mode) test_connection_setup (ctx, c);
  if (!dbus_connection_add_filter (c, filter, NULL, NULL)) exit (3);
}

static void
run_idle_blocking (int max_calls)
{
  int calls = 0, quiet = 0;
  while (_dbus_loop_iterate (ctx, FALSE) && calls++ < 100) ;
  calls = 0;
  while (server_conn != NULL && calls++ < max_calls && quiet < 3)
    {
      int before = n_msgs, fd = -1, avail = 0;
      if (!dbus_connection_read_write_dispatch (server_conn, 0))
        break;
      if (dbus_connection_get_dispatch_status (server_conn) == DBUS_DISPATCH_COMPLETE && n_msgs == before &&
          (!dbus_connection_get_unix_fd (server_conn, &fd) || ioctl (fd, FIONREAD, &avail) < 0 || avail == 0))
        quiet++;
      else
        quiet = 0;
    }
}

static void
run_idle (void)
{
  int i;
  if (blocking_mode) { run_idle_blocking (5000); return; }
  /* iterate until nothing happens for a few rounds */
  for (i = 0; i < 4; i++)
    {
      int guard = 0;
      while (_dbus_loop_iterate (ctx, FALSE) && guard++ < 1000) ;
      while (server_conn && dbus_connection_get_dispatch_status (server_conn) == DBUS_DISPATCH_DATA_REMAINS && guard++ < 2000)
        dbus_connection_dispatch (server_conn);
    }
}

/* one complete conversation; returns a malloc'd JSON object.  arm_ci >= 0: arm the injector (k, nf) for the
 * processing of chunk number arm_ci; *n_alloc gets the number of allocations of that processing when k is huge */
static char *
do_stream (const char *path, const unsigned char *buf, long n, const char *chunks, int arm_ci, int k, int nf, int *fired, int *n_alloc)
{
  const char *cp = chunks;
  long off = 0;
  int fd, ci = 0;
  struct sockaddr_un sa;
  int client_closed_by_peer = 0;
  char *out = NULL; size_t outlen = 0; FILE *of;

  n_msgs = 0; saw_local_disconnect = 0;
  msgf = open_memstream (&msgbuf, &msglen);
  if (fired) *fired = 0;

  fd = socket (AF_UNIX, SOCK_STREAM, 0);
  memset (&sa, 0, sizeof sa);
  sa.sun_family = AF_UNIX;
  strncpy (sa.sun_path, path, sizeof sa.sun_path - 1);
  if (connect (fd, (struct sockaddr *) &sa, sizeof sa) < 0) { perror ("connect"); exit (3); }
  fcntl (fd, F_SETFL, O_NONBLOCK);
  run_idle ();

  while (off < n)
    {
      long take;
      ssize_t w;
      if (cp == NULL || *cp == '-' || *cp == 0) take = n - off;
      else
        {
          take = strtol (cp, (char **) &cp, 10);
          if (*cp == ',') cp++;
          if (take > n - off) take = n - off;
          if (take <= 0) take = 1;
        }
      if (send_fds_n > 0 && ci == send_fds_ci)
        {
          /* the descriptors travel with the first byte of this chunk (SCM_RIGHTS) */
          struct msghdr mh; struct iovec iov; char cbuf[CMSG_SPACE (sizeof (int) * 8)]; struct cmsghdr *cm;
          int fds[8], i, n = send_fds_n > 8 ? 8 : send_fds_n;
          for (i = 0; i < n; i++) fds[i] = open ("/dev/null", O_RDONLY | O_CLOEXEC);
          memset (&mh, 0, sizeof mh); memset (cbuf, 0, sizeof cbuf);
          iov.iov_base = (void *) (buf + off); iov.iov_len = (size_t) take;
          mh.msg_iov = &iov; mh.msg_iovlen = 1; mh.msg_control = cbuf; mh.msg_controllen = CMSG_SPACE (sizeof (int) * n);
          cm = CMSG_FIRSTHDR (&mh); cm->cmsg_level = SOL_SOCKET; cm->cmsg_type = SCM_RIGHTS; cm->cmsg_len = CMSG_LEN (sizeof (int) * n);
          memcpy (CMSG_DATA (cm), fds, sizeof (int) * n);
          w = sendmsg (fd, &mh, MSG_NOSIGNAL);
          for (i = 0; i < n; i++) close (fds[i]);
        }
      else
      w = send (fd, buf + off, (size_t) take, MSG_NOSIGNAL);
      if (w < 0)
        {
          if (errno == EPIPE || errno == ECONNRESET) { client_closed_by_peer = 1; break; }
          if (errno == EAGAIN) { run_idle (); continue; }
          perror ("send"); exit (3);
        }
      off += w;
      if (ci == arm_ci && server_conn != NULL)
        {
          int c;
          _dbus_set_fail_alloc_failures (nf);
          _dbus_set_fail_alloc_counter (k);
          run_idle_blocking (12);
          c = _dbus_get_fail_alloc_counter ();
          if (fired) *fired = (c > k);
          if (n_alloc) *n_alloc = k - c;
          _dbus_set_fail_alloc_counter (_DBUS_INT_MAX);
          _dbus_set_fail_alloc_failures (1);
        }
      run_idle ();
      ci++;
    }
  run_idle ();
  fclose (msgf);
  of = open_memstream (&out, &outlen);
  {
    unsigned long seen_uid = 0;
    int has_uid = server_conn ? (int) dbus_connection_get_unix_user (server_conn, &seen_uid) : -1;
    fprintf (of, "{\"auth\":%d,\"connected\":%d,\"local_disconnected\":%d,\"sent\":%ld,\"epipe\":%d,"
             "\"anon\":%d,\"has_uid\":%d,\"uid\":%lu,\"userfn_calls\":%d,\"userfn_uid_is_unset\":%d,\"userfn_uid\":%lu,\"msgs\":[%s]}",
             server_conn ? (int) dbus_connection_get_is_authenticated (server_conn) : -1,
             server_conn ? (int) dbus_connection_get_is_connected (server_conn) : -1,
             saw_local_disconnect, off, client_closed_by_peer,
             server_conn ? (int) dbus_connection_get_is_anonymous (server_conn) : -1, has_uid, has_uid > 0 ? seen_uid : 0,
             userfn_calls, userfn_calls > 0 && userfn_last_uid == DBUS_UID_UNSET, userfn_calls > 0 && userfn_last_uid != DBUS_UID_UNSET ? userfn_last_uid : 0,
             msgbuf ? msgbuf : "");
    userfn_calls = 0;
  }
  fclose (of);
  free (msgbuf); msgbuf = NULL;
  close (fd);
  run_idle ();
  if (server_conn)
    {
      if (dbus_connection_get_is_connected (server_conn))
        dbus_connection_close (server_conn);
      run_idle ();
      if (!blocking_mode) test_connection_shutdown (ctx, server_conn);
      dbus_connection_remove_filter (server_conn, filter, NULL);
      dbus_connection_unref (server_conn);
      server_conn = NULL;
    }
  return out;
}

int main (void)
{
  char *line;
  char path[128];
  char addr[160];
  DBusError err;
  DBusServer *server;

  setvbuf (stdout, NULL, _IOFBF, 1 << 16);
  ctx = test_main_context_get ();
  dbus_error_init (&err);
  snprintf (path, sizeof path, "%s/verif-hs-%ld", getenv ("VERIF_RUNDIR") ? getenv ("VERIF_RUNDIR") : "/tmp", (long) getpid ());
  snprintf (addr, sizeof addr, "unix:path=%s", path);
  server = dbus_server_listen (addr, &err);
  if (server == NULL) { fprintf (stderr, "listen failed: %s\n", err.message); return 3; }
  dbus_server_set_new_connection_function (server, new_conn, NULL, NULL);
  test_server_setup (ctx, server);

  while ((line = hc_readline ()) != NULL)
    {
      unsigned char *buf = NULL;
      char *p = line, *sp;
      long n;
      int mode = 0, arm_ci = -1;
      char *res;

      if ((p[0] == 'B' || p[0] == 'O') && p[1] == ' ')
        {
          mode = p[0];
          p += 2;
          send_fds_n = 0; send_fds_ci = -1;
          if (mode == 'O' && p[0] == 'F' && p[1] == ' ')
            {
              /* O F <nfds> <fd chunk> <ci> <hex> <chunks> */
              p += 2;
              send_fds_n = (int) strtol (p, &p, 10);
              send_fds_ci = (int) strtol (p, &p, 10);
              while (*p == ' ') p++;
            }
          if (mode == 'O') { arm_ci = (int) strtol (p, &p, 10); while (*p == ' ') p++; }
        }
      sp = strchr (p, ' ');
      if (sp) *sp++ = 0;
      n = hc_unhex (p, &buf);
      if (n < 0) { printf ("{\"k\":\"bad-input\"}\n"); fflush (stdout); free (line); continue; }
      blocking_mode = (mode != 0);
      if (mode != 'O')
        {
          res = do_stream (path, buf, n, sp, -1, 0, 1, NULL, NULL);
          printf ("%s\n", res);
          free (res);
        }
      else
        {
          int n_alloc = 0, fired = 0, runs = 0, nfired = 0, nbad = 0, ndropped = 0, k, nf;
          char *ref = do_stream (path, buf, n, sp, arm_ci, 1 << 28, 1, &fired, &n_alloc);
          if (n_alloc > 400) n_alloc = 400;
          printf ("{\"k\":\"O\",\"n_alloc\":%d,\"ref\":%s,\"bad\":[", n_alloc, ref);
          for (nf = 1; nf <= 2; nf++)
            for (k = 0; k < n_alloc; k++)
              {
                if (getenv ("VERIF_HS_ONLY_K") != NULL && (atoi (getenv ("VERIF_HS_ONLY_K")) != k || nf != 1))
                  continue;
                res = do_stream (path, buf, n, sp, arm_ci, k, nf, &fired, NULL);
                runs++;
                nfired += fired != 0;
                if (strncmp (res, "{\"auth\":0,\"connected\":0,", 24) == 0 && strstr (res, "\"msgs\":[]") != NULL)
                  ndropped++;       /* connection given up during the handshake (credentials / SASL under OOM) */
                else if (strcmp (res, ref) != 0 && nbad < 4)
                  printf ("%s{\"k\":%d,\"nf\":%d,\"out\":%s}", nbad++ ? "," : "", k, nf, res);
                free (res);
              }
          printf ("],\"runs\":%d,\"fired\":%d,\"dropped_in_handshake\":%d}\n", runs, nfired, ndropped);
          free (ref);
        }
      fflush (stdout);
      free (buf);
      free (line);
    }
  test_server_shutdown (ctx, server);
  dbus_server_disconnect (server);
  dbus_server_unref (server);
  test_main_context_unref (ctx);
  unlink (path);
  dbus_shutdown ();
  return 0;
}
