/* C20 executor: object-path handler registration and dispatch.
 *
 * An in-process DBusServer on a unix socket plus a private client connection to it, both driven
 * by the test-utils main loop.  Handlers are registered on the SERVER-side connection; the client
 * connection sends method calls and waits for the reply.  One fresh connection pair per case, so
 * every history starts from an empty tree and ends with the connection being finalized while
 * handlers are still registered.
 *
 * stdin, one case per line, ops separated by ';':
 *   R <path> <id> <declines>    dbus_connection_try_register_object_path
 *   F <path> <id> <declines>    dbus_connection_try_register_fallback
 *   U <path>                    dbus_connection_unregister_object_path (only ever for registered paths)
 *   L <path>                    dbus_connection_list_registered
 *   G <path>                    dbus_connection_get_object_path_data
 *   C <path>                    method call com.example.T.M to <path>
 *   c <path>                    method call M without INTERFACE to <path>
 *   X <path>                    the call of C, repeated with the k-th allocation after the start of its dispatch failing
 *                               (k = 0,1,... until the fault no longer fires): the caller must get the same answer
 *   D <path>                    method call com.example.T.Destroy to <path>: the handler that takes it unregisters its own
 *                               registration from inside the handler, then replies (prints two result objects)
 *   P <path>                    org.freedesktop.DBus.Peer.Ping to <path>
 *   I <path>                    org.freedesktop.DBus.Introspectable.Introspect to <path>
 * stdout: {"ops":[ per-op result objects ],"final_unreg":[ids whose unregister callback ran at teardown]}
 */
#include "hcommon.h"
#include <test/test-utils.h>
#include <dbus/dbus-internals.h>

typedef struct { int id; int declines; char *path; } Handler;

static TestMainContext *ctx;
static DBusConnection *server_conn;
static int inv[256];
static int n_inv;
static int unreg[1024];
static int n_unreg;

static void
h_unregister (DBusConnection *c, void *data)
{
  Handler *h = data;
  if (n_unreg < 1024) unreg[n_unreg] = h->id;
  n_unreg++;
  free (h->path);
  free (h);
}

static DBusHandlerResult
h_message (DBusConnection *c, DBusMessage *m, void *data)
{
  Handler *h = data;
  DBusMessage *reply;
  dbus_uint32_t id = (dbus_uint32_t) h->id;

  /* a fallback at "/" is also offered the local Disconnected signal at teardown */
  if (dbus_message_get_type (m) != DBUS_MESSAGE_TYPE_METHOD_CALL)
    return DBUS_HANDLER_RESULT_NOT_YET_HANDLED;
  if (n_inv < 256) inv[n_inv] = h->id;
  n_inv++;
  if (h->declines)
    return DBUS_HANDLER_RESULT_NOT_YET_HANDLED;
  if (dbus_message_is_method_call (m, "com.example.T", "Destroy"))
    {
      /* the object removes itself from inside its own handler (the usual Destroy()/Close() pattern); this runs
       * h_unregister, which frees h */
      char *own = strdup (h->path);
      if (!dbus_connection_unregister_object_path (c, own)) exit (3);
      free (own);
    }
  reply = dbus_message_new_method_return (m);
  if (reply == NULL) return DBUS_HANDLER_RESULT_NEED_MEMORY;
  if (!dbus_message_append_args (reply, DBUS_TYPE_UINT32, &id, DBUS_TYPE_INVALID) || !dbus_connection_send (c, reply, NULL))
    {
      dbus_message_unref (reply);
      return DBUS_HANDLER_RESULT_NEED_MEMORY;
    }
  dbus_message_unref (reply);
  return DBUS_HANDLER_RESULT_HANDLED;
}

/* 'X' op: the injector is armed from inside a filter of the server-side connection, i.e. at the start of the dispatch
 * of the incoming call, so that the failing allocation lies in the object-tree dispatch and in the building of the
 * automatic error reply (application code arms it, the library code after it runs under the fault) */
static int arm_k = -1;
static int arm_fired;

static DBusHandlerResult
arm_filter (DBusConnection *c, DBusMessage *m, void *data)
{
  if (arm_k >= 0 && dbus_message_get_type (m) == DBUS_MESSAGE_TYPE_METHOD_CALL)
    {
      _dbus_set_fail_alloc_failures (1);
      _dbus_set_fail_alloc_counter (arm_k);
      arm_k = -2;     /* armed once per call: a re-dispatch after NEED_MEMORY runs without fault */
    }
  return DBUS_HANDLER_RESULT_NOT_YET_HANDLED;
}

static const DBusObjectPathVTable vtable = { h_unregister, h_message, NULL, NULL, NULL, NULL };

static void
new_conn (DBusServer *server, DBusConnection *c, void *data)
{
  if (server_conn != NULL) return;
  server_conn = dbus_connection_ref (c);
  dbus_connection_set_allow_anonymous (c, FALSE);
  test_connection_setup (ctx, c);
}

static void
put_ids (const int *v, int n, int cap)
{
  int i;
  putchar ('[');
  for (i = 0; i < n && i < cap; i++) printf ("%s%d", i ? "," : "", v[i]);
  putchar (']');
}

static void
do_call (DBusConnection *cc, const char *path, const char *iface, const char *member, int kind)
{
  DBusMessage *m, *reply;
  DBusPendingCall *pc = NULL;
  long guard = 0;

  m = dbus_message_new_method_call (NULL, path, iface, member);
  if (m == NULL) exit (3);
  n_inv = 0;
  if (!dbus_connection_send_with_reply (cc, m, &pc, kind == 'X' ? 1500 : 600000) || pc == NULL)
    {
      printf ("{\"op\":\"call\",\"sent\":0}");
      dbus_message_unref (m);
      return;
    }
  dbus_message_unref (m);
  while (!dbus_pending_call_get_completed (pc) && guard++ < 100000000L)
    test_main_context_iterate (ctx, TRUE);
  reply = dbus_pending_call_steal_reply (pc);
  dbus_pending_call_unref (pc);
  printf ("{\"op\":\"call\",\"sent\":1,\"inv\":");
  put_ids (inv, n_inv, 256);
  printf (",\"n_inv\":%d", n_inv);
  if (reply == NULL)
    printf (",\"type\":0");
  else
    {
      int t = dbus_message_get_type (reply);
      printf (",\"type\":%d,\"sig\":\"%s\"", t, dbus_message_get_signature (reply));
      if (t == DBUS_MESSAGE_TYPE_ERROR)
        printf (",\"err\":\"%s\"", dbus_message_get_error_name (reply));
      else if (t == DBUS_MESSAGE_TYPE_METHOD_RETURN)
        {
          dbus_uint32_t id = 0;
          const char *s = NULL;
          if (dbus_message_get_args (reply, NULL, DBUS_TYPE_UINT32, &id, DBUS_TYPE_INVALID))
            printf (",\"from\":%u", (unsigned) id);
          else if (kind == 'I' && dbus_message_get_args (reply, NULL, DBUS_TYPE_STRING, &s, DBUS_TYPE_INVALID))
            { fputs (",\"xml\":", stdout); hc_putstr_hex (stdout, s); }
        }
      dbus_message_unref (reply);
    }
  putchar ('}');
}

int main (void)
{
  char *line;
  char path[128];
  char addr[160];
  DBusError err;
  DBusServer *server;

  setvbuf (stdout, NULL, _IOFBF, 1 << 16);
  ctx = test_main_context_get ();
  dbus_error_init (&err);
  snprintf (path, sizeof path, "%s/verif-ot-%ld", getenv ("VERIF_RUNDIR") ? getenv ("VERIF_RUNDIR") : "/tmp", (long) getpid ());
  snprintf (addr, sizeof addr, "unix:path=%s", path);
  server = dbus_server_listen (addr, &err);
  if (server == NULL) { fprintf (stderr, "listen failed: %s\n", err.message); return 3; }
  dbus_server_set_new_connection_function (server, new_conn, NULL, NULL);
  test_server_setup (ctx, server);

  while ((line = hc_readline ()) != NULL)
    {
      DBusConnection *cc;
      char *save = NULL, *tok;
      int first = 1;
      long guard = 0;
      int before;

      cc = dbus_connection_open_private (addr, &err);
      if (cc == NULL) { fprintf (stderr, "open failed: %s\n", err.message); return 3; }
      test_connection_setup (ctx, cc);
      while ((server_conn == NULL || !dbus_connection_get_is_authenticated (cc)
              || !dbus_connection_get_is_authenticated (server_conn)) && guard++ < 100000)
        test_main_context_iterate (ctx, TRUE);
      if (server_conn == NULL) { fprintf (stderr, "no server connection\n"); return 3; }
      n_unreg = 0;

      fputs ("{\"ops\":[", stdout);
      for (tok = strtok_r (line, ";", &save); tok != NULL; tok = strtok_r (NULL, ";", &save))
        {
          char op = tok[0];
          char p[512];
          int id = 0, declines = 0;

          p[0] = 0;
          if (sscanf (tok + 1, " %511s %d %d", p, &id, &declines) < 1 || p[0] != '/')
            { printf ("%s{\"op\":\"bad\"}", first ? "" : ","); first = 0; continue; }
          if (!first) putchar (',');
          first = 0;
          switch (op)
            {
            case 'R': case 'F':
              {
                Handler *h = malloc (sizeof *h);
                dbus_bool_t ok;
                h->id = id; h->declines = declines; h->path = strdup (p);
                dbus_error_init (&err);
                if (op == 'R')
                  ok = dbus_connection_try_register_object_path (server_conn, p, &vtable, h, &err);
                else
                  ok = dbus_connection_try_register_fallback (server_conn, p, &vtable, h, &err);
                if (ok)
                  printf ("{\"op\":\"reg\",\"ok\":1,\"err_set\":%d}", (int) dbus_error_is_set (&err));
                else
                  {
                    printf ("{\"op\":\"reg\",\"ok\":0,\"err\":\"%s\"}", dbus_error_is_set (&err) ? err.name : "");
                    free (h->path);
                    free (h);
                  }
                if (dbus_error_is_set (&err)) dbus_error_free (&err);
                break;
              }
            case 'U':
              {
                dbus_bool_t ok;
                before = n_unreg;
                ok = dbus_connection_unregister_object_path (server_conn, p);
                printf ("{\"op\":\"unreg\",\"ok\":%d,\"cb\":", (int) ok);
                put_ids (unreg + before, n_unreg - before, 1024 - before);
                putchar ('}');
                break;
              }
            case 'L':
              {
                char **kids = NULL;
                int i;
                if (!dbus_connection_list_registered (server_conn, p, &kids)) exit (3);
                fputs ("{\"op\":\"list\",\"children\":[", stdout);
                for (i = 0; kids && kids[i]; i++) printf ("%s\"%s\"", i ? "," : "", kids[i]);
                fputs ("]}", stdout);
                dbus_free_string_array (kids);
                break;
              }
            case 'G':
              {
                void *d = (void *) 1;
                if (!dbus_connection_get_object_path_data (server_conn, p, &d)) exit (3);
                printf ("{\"op\":\"data\",\"id\":%d}", d ? ((Handler *) d)->id : -1);
                break;
              }
            case 'C': do_call (cc, p, "com.example.T", "M", 'C'); break;
            case 'D':
              before = n_unreg;
              do_call (cc, p, "com.example.T", "Destroy", 'D');
              /* do_call printed one object; append which unregister callbacks ran */
              fputs (",{\"op\":\"destroyed\",\"cb\":", stdout);
              put_ids (unreg + before, n_unreg - before, 1024 - before);
              putchar ('}');
              break;
            case 'c': do_call (cc, p, NULL, "M", 'c'); break;
            case 'X':
              {
                /* the same call once without fault and then with the k-th allocation after the start of its dispatch
                 * failing, k = 0,1,2,... until the fault no longer fires; every reply is printed */
                int k, fired = 1;
                if (!dbus_connection_add_filter (server_conn, arm_filter, NULL, NULL)) exit (3);
                fputs ("{\"op\":\"oomcall\",\"runs\":[", stdout);
                arm_k = -1;
                do_call (cc, p, "com.example.T", "M", 'X');
                for (k = 0; k < 200 && fired; k++)
                  {
                    int c;
                    putchar (',');
                    arm_k = k;
                    do_call (cc, p, "com.example.T", "M", 'X');
                    c = _dbus_get_fail_alloc_counter ();
                    fired = (arm_k == -2 && c > k);
                    _dbus_set_fail_alloc_counter (_DBUS_INT_MAX);
                    arm_k = -1;
                  }
                printf ("],\"n\":%d}", k);
                dbus_connection_remove_filter (server_conn, arm_filter, NULL);
                break;
              }
            case 'P': do_call (cc, p, "org.freedesktop.DBus.Peer", "Ping", 'P'); break;
            case 'I': do_call (cc, p, "org.freedesktop.DBus.Introspectable", "Introspect", 'I'); break;
            default: printf ("{\"op\":\"bad\"}");
            }
        }
      fputs ("]", stdout);

      /* teardown: handlers still registered get their unregister callback when the server-side
       * connection is finalized */
      before = n_unreg;
      dbus_connection_close (cc);
      guard = 0;
      while (dbus_connection_get_is_connected (server_conn) && guard++ < 100000)
        test_main_context_iterate (ctx, TRUE);
      while (dbus_connection_dispatch (cc) == DBUS_DISPATCH_DATA_REMAINS) ;
      test_connection_shutdown (ctx, cc);
      dbus_connection_unref (cc);
      if (dbus_connection_get_is_connected (server_conn))
        dbus_connection_close (server_conn);
      while (dbus_connection_dispatch (server_conn) == DBUS_DISPATCH_DATA_REMAINS) ;
      test_connection_shutdown (ctx, server_conn);
      dbus_connection_unref (server_conn);
      server_conn = NULL;
      guard = 0;
      while (guard++ < 4 && _dbus_loop_iterate (ctx, FALSE)) ;
      fputs (",\"final_unreg\":", stdout);
      put_ids (unreg + before, n_unreg - before, 1024 - before);
      fputs ("}\n", stdout);
      fflush (stdout);
      free (line);
    }
  test_server_shutdown (ctx, server);
  dbus_server_disconnect (server);
  dbus_server_unref (server);
  test_main_context_unref (ctx);
  unlink (path);
  dbus_shutdown ();
  return 0;
}
