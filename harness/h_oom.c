/* C14 (library part) executor: runs one operation per stdin line under libdbus' own allocation-failure
 * injector, enumerating the index k of the failing allocation exhaustively (k = 0,1,2,... until the
 * operation completes without the fault firing), once with single failures and once with bursts of two
 * consecutive failures.  No judgement here: every run prints what was observed, Python decides.
 *
 * stdin lines (strings are "x<hex>" / "-" as in h_build.c / h_edit.c):
 *   copy <warm> <nfds> <hex>            dbus_message_copy of the message demarshalled from <hex> (nfds
 *                                       descriptors are attached through a DBusMessageLoader, fault off)
 *   edit <warm> W <hex> <op>...         h_edit.c script; every step is run under every k on a message that
 *   edit <warm> L <type> <serial> <n> (<code> <value>)*n <op>...   had the earlier steps applied fault-free
 *   build <warm> <h_build program>      construction program (without X); on the first failing call the open
 *                                       containers are abandoned and the message is dropped, then the program
 *                                       is retried without fault
 *   demarshal <warm> <hex>              dbus_message_demarshal
 *   loader <warm> <n1,n2..> <hex1,hex2..> <c1,c2,...|-> [<readfirst>]   DBusMessageLoader fed like the socket transport does
 *                                       (message i carries n_i descriptors which arrive with its first byte;
 *                                       chunk sizes as in h_parse.c); queue_messages is retried while FALSE
 *   matchrule <warm> <x hex>            bus_match_rule_parse (NULL, text)
 *   fdappend <warm> <x path> <shape>    a method call to <path> gets descriptors appended (shape h, hh, sh, args, ah, (hs), v) and is
 *                                       dropped again: block count and open-descriptor count must be back at the baseline
 *   config <warm> <x hex text>          bus_config_load (scratch file holding the text, TRUE, NULL): what the parser's getters return (type, user,
 *                                       addresses, mechanisms, service and include directories, every limit, flags, the
 *                                       policy's verdict on a few uids) is dumped and compared with the fault-free dump
 *   END                                 prints the block count after the final dbus_shutdown
 * <warm> = 1: before the fault is armed a message is created and released, so that the message cache and
 * the global locks exist (0: the operation starts on a library that was just shut down).
 *
 * Every run: baseline -> (set-up, fault off) -> arm(k) -> operation -> disarm -> observations (fault off)
 * -> free everything -> dbus_shutdown() -> block count must be back at the baseline ("leak" = difference);
 * for descriptor cases also the number of open descriptors ("fd_delta").
 * stdout per case: {"k":"O","op":..,"runs":[{"k":-1,...reference...},{"k":0,"n":1,"fired":f,...},...],
 *                   "blobs":[...],"klimit":0|1}   (identical outputs are printed once and referred to by index)
 * stderr: "VERIF-CASE <line> k=<k> n=<burst> step=<s>" before every run.
 */
#define _GNU_SOURCE
#include "hcommon.h"
#include <dirent.h>
#include <fcntl.h>
#include <sys/mman.h>
#include <sys/stat.h>
#include <dbus/dbus-internals.h>
#include <dbus/dbus-string.h>
#include <dbus/dbus-message-internal.h>
#include <bus/signals.h>
#include <bus/config-parser.h>
#include <bus/policy.h>

#define K_LIMIT 4000
#define MAX_DEPTH 80
#define MAX_FDS 16
#define MAX_CANARY 64

static unsigned long case_no = 0;
static int cur_k = -1, cur_n = 1, cur_step = 0;
static int base_blocks = 0;

void __asan_on_error (void);
void __asan_on_error (void)
{
  fprintf (stderr, "VERIF-CASE %lu k=%d n=%d step=%d (asan)\n", case_no, cur_k, cur_n, cur_step);
}

/* ------------------------------------------------------------------ small utilities */

static void **arena = NULL;
static size_t arena_n = 0, arena_cap = 0;

static void *arena_keep (void *p)
{
  if (arena_n == arena_cap)
    {
      arena_cap = arena_cap ? arena_cap * 2 : 64;
      arena = realloc (arena, arena_cap * sizeof (void *));
    }
  arena[arena_n++] = p;
  return p;
}

static void arena_free (void)
{
  size_t i;
  for (i = 0; i < arena_n; i++) free (arena[i]);
  arena_n = 0;
}

static char *tok_str (const char *t, int *bad)
{
  unsigned char *b = NULL;
  long n;
  char *s;
  if (t == NULL) { *bad = 1; return NULL; }
  if (t[0] == '-' && t[1] == 0) return NULL;
  if (t[0] != 'x') { *bad = 1; return NULL; }
  if (t[1] == 0) { s = malloc (1); s[0] = 0; return arena_keep (s); }
  n = hc_unhex (t + 1, &b);
  if (n < 0) { *bad = 1; return NULL; }
  s = malloc ((size_t) n + 1);
  memcpy (s, b, (size_t) n);
  s[n] = 0;
  free (b);
  return arena_keep (s);
}

/* table of distinct outputs of one case */
static char **blobs = NULL;
static size_t *blob_len = NULL;
static size_t blobs_n = 0, blobs_cap = 0;

static long blob_intern (char *s, size_t len)   /* takes ownership of s */
{
  size_t i;
  for (i = 0; i < blobs_n; i++)
    if (blob_len[i] == len && memcmp (blobs[i], s, len) == 0) { free (s); return (long) i; }
  if (blobs_n == blobs_cap)
    {
      blobs_cap = blobs_cap ? blobs_cap * 2 : 16;
      blobs = realloc (blobs, blobs_cap * sizeof (char *));
      blob_len = realloc (blob_len, blobs_cap * sizeof (size_t));
    }
  blobs[blobs_n] = s; blob_len[blobs_n] = len;
  return (long) blobs_n++;
}

static void blobs_print_and_free (FILE *f)
{
  size_t i;
  fputs ("\"blobs\":[", f);
  for (i = 0; i < blobs_n; i++)
    {
      if (i) fputc (',', f);
      fwrite (blobs[i], 1, blob_len[i], f);
      free (blobs[i]);
    }
  fputc (']', f);
  blobs_n = 0;
}

/* marshalled bytes of m as an interned blob, -1 if marshalling failed */
static long blob_marshal (DBusMessage *m)
{
  char *buf = NULL; int len = 0;
  char *s; size_t sl; FILE *mf;
  if (m == NULL || !dbus_message_marshal (m, &buf, &len)) return -1;
  mf = open_memstream (&s, &sl);
  hc_puthex (mf, buf, (size_t) len);
  fclose (mf);
  dbus_free (buf);
  return blob_intern (s, sl);
}

static long blob_dump (DBusMessage *m)
{
  char *s; size_t sl; FILE *mf;
  if (m == NULL) return -1;
  mf = open_memstream (&s, &sl);
  hc_dump_message (mf, m, 1);
  fclose (mf);
  return blob_intern (s, sl);
}

static void put_blob (const char *name, long idx)
{
  if (idx < 0) printf (",\"%s\":null", name); else printf (",\"%s\":%ld", name, idx);
}

/* ------------------------------------------------------------------ the injector */

static void arm (int k, int nf)
{
  cur_k = k; cur_n = nf;
  if (k < 0) return;
  _dbus_set_fail_alloc_failures (nf);
  _dbus_set_fail_alloc_counter (k);
}

/* returns how many injected failures fired (0 = the operation ran to completion untouched) */
static int disarm (int k, int nf)
{
  int c, fired = 0;
  if (k < 0) return 0;
  c = _dbus_get_fail_alloc_counter ();
  if (c > k)
    fired = nf;                 /* the counter was reset after the (whole) burst */
  else if (nf > 1 && c <= 0)
    {
      /* either nothing fired and exactly k allocations happened, or the first failure of the burst fired
       * and the operation ended before the second: in the latter case one more failure completes the
       * burst and the allocation after it succeeds */
      void *p1 = dbus_malloc (1), *p2 = dbus_malloc (1);
      if (p1 != NULL) { fprintf (stderr, "injector probe: unexpected success\n"); dbus_free (p1); }
      if (p2 != NULL) { fired = 1; dbus_free (p2); }
    }
  _dbus_set_fail_alloc_counter (_DBUS_INT_MAX);
  _dbus_set_fail_alloc_failures (1);
  return fired;
}

static int run_base = 0;

static void begin_run (int k, int nf, int step)
{
  cur_k = k; cur_n = nf; cur_step = step;
  /* the previous run ended with dbus_shutdown(): whatever is allocated now is not this run's */
  run_base = _dbus_get_malloc_blocks_outstanding ();
  fprintf (stderr, "VERIF-CASE %lu k=%d n=%d step=%d\n", case_no, k, nf, step);
}

static void warm_up (int warm)
{
  if (warm)
    {
      DBusMessage *w = dbus_message_new (DBUS_MESSAGE_TYPE_METHOD_CALL);
      if (w != NULL) dbus_message_unref (w);
    }
}

/* frees the library's caches; returns the block count above what was allocated when the run began */
static int end_run (void)
{
  dbus_shutdown ();
  return _dbus_get_malloc_blocks_outstanding () - run_base;
}

/* ------------------------------------------------------------------ descriptors */

static int count_open_fds (void)
{
  DIR *d = opendir ("/proc/self/fd");
  struct dirent *e;
  int n = 0;
  if (d == NULL) return -1;
  while ((e = readdir (d)) != NULL)
    if (e->d_name[0] != '.') n++;
  closedir (d);
  return n - 1;   /* the directory stream itself */
}

static int make_fd (void)
{
  int fd = memfd_create ("verif-c14", MFD_CLOEXEC);
  if (fd < 0)
    {
      char tmpl[] = "/tmp/verif-c14-XXXXXX";
      fd = mkstemp (tmpl);
      if (fd >= 0) unlink (tmpl);
    }
  return fd;
}

static void fd_id (int fd, char *out, size_t n)
{
  struct stat st;
  if (fd < 0 || fstat (fd, &st) != 0) snprintf (out, n, "bad");
  else snprintf (out, n, "%lx:%lx", (unsigned long) st.st_dev, (unsigned long) st.st_ino);
}

/* prints ["dev:ino",...] of every UNIX_FD value in the body, in order */
static void walk_fds (FILE *f, DBusMessageIter *it, int *first)
{
  int t;
  while ((t = dbus_message_iter_get_arg_type (it)) != DBUS_TYPE_INVALID)
    {
      if (t == DBUS_TYPE_UNIX_FD)
        {
          int fd = -1; char id[64];
          dbus_message_iter_get_basic (it, &fd);
          fd_id (fd, id, sizeof id);
          if (fd >= 0) close (fd);
          fprintf (f, "%s\"%s\"", *first ? "" : ",", id);
          *first = 0;
        }
      else if (t == DBUS_TYPE_ARRAY || t == DBUS_TYPE_STRUCT || t == DBUS_TYPE_DICT_ENTRY || t == DBUS_TYPE_VARIANT)
        {
          DBusMessageIter sub;
          dbus_message_iter_recurse (it, &sub);
          walk_fds (f, &sub, first);
        }
      dbus_message_iter_next (it);
    }
}

static void put_msg_fds (FILE *f, DBusMessage *m)
{
  DBusMessageIter it;
  int first = 1;
  fputc ('[', f);
  if (m != NULL && dbus_message_iter_init (m, &it)) walk_fds (f, &it, &first);
  fputc (']', f);
}

/* fault-free: message from bytes with descriptors attached through a loader */
static DBusMessage *load_one (const unsigned char *buf, long n, const int *fds, int nfds)
{
  DBusMessageLoader *loader = _dbus_message_loader_new ();
  DBusString *str; DBusMessage *m = NULL;
  int i;
  if (loader == NULL) return NULL;
  if (nfds > 0)
    {
      int *slot = NULL; unsigned max = 0;
      if (!_dbus_message_loader_get_unix_fds (loader, &slot, &max) || (unsigned) nfds > max)
        { for (i = 0; i < nfds; i++) close (fds[i]); _dbus_message_loader_unref (loader); return NULL; }
      for (i = 0; i < nfds; i++) slot[i] = fds[i];
      _dbus_message_loader_return_unix_fds (loader, slot, (unsigned) nfds);
    }
  _dbus_message_loader_get_buffer (loader, &str, NULL, NULL);
  if (_dbus_string_append_len (str, (const char *) buf, (int) n))
    {
      _dbus_message_loader_return_buffer (loader, str);
      if (_dbus_message_loader_queue_messages (loader) && !_dbus_message_loader_get_is_corrupted (loader))
        m = _dbus_message_loader_pop_message (loader);
    }
  else
    _dbus_message_loader_return_buffer (loader, str);
  _dbus_message_loader_unref (loader);
  return m;
}

/* ------------------------------------------------------------------ tokens */

typedef struct { char **tv; size_t tn; } Toks;

static Toks split (char *p)
{
  Toks t = { NULL, 0 };
  size_t cap = 0;
  while (*p)
    {
      while (*p == ' ') p++;
      if (!*p) break;
      if (t.tn == cap) { cap = cap ? cap * 2 : 64; t.tv = realloc (t.tv, cap * sizeof (char *)); }
      t.tv[t.tn++] = p;
      while (*p && *p != ' ') p++;
      if (*p) *p++ = 0;
    }
  return t;
}

typedef union { unsigned char y; dbus_bool_t b; dbus_uint16_t q; dbus_uint32_t u; dbus_uint64_t t; const char *s; } BasicVal;

static int parse_basic (int code, const char *tok, BasicVal *v, int *bad)
{
  unsigned long long n;
  if (tok == NULL) { *bad = 1; return 0; }
  if (code == 's' || code == 'o' || code == 'g')
    {
      v->s = tok_str (tok, bad);
      if (v->s == NULL) *bad = 1;
      return 1;
    }
  n = strtoull (tok, NULL, 10);
  switch (code)
    {
    case 'y': v->y = (unsigned char) n; return 1;
    case 'b': v->b = (dbus_bool_t) n; return 1;
    case 'n': case 'q': v->q = (dbus_uint16_t) n; return 1;
    case 'i': case 'u': v->u = (dbus_uint32_t) n; return 1;
    case 'x': case 't': case 'd': { uint64_t w = (uint64_t) n; memcpy (&v->t, &w, 8); return 1; }
    default: *bad = 1; return 0;
    }
}

/* ------------------------------------------------------------------ build */

static DBusMessage *make_call_for_reply (const char *serial_tok, const char *sender)
{
  DBusMessage *call = dbus_message_new_method_call (NULL, "/", NULL, "M");
  if (call == NULL) return NULL;
  dbus_message_set_serial (call, (dbus_uint32_t) strtoul (serial_tok, NULL, 10));
  if (sender != NULL && !dbus_message_set_sender (call, sender))
    { dbus_message_unref (call); return NULL; }
  return call;
}

/* Runs a h_build program (tokens from index `from`).  On the first API failure abandons the open containers,
 * drops the message, sets *failed_at to the token index and returns NULL. */
static DBusMessage *run_build (Toks *t, size_t from, long *failed_at, int *bad)
{
  char **tv = t->tv; size_t tn = t->tn, i = from;
  DBusMessage *m = NULL;
  DBusMessageIter stack[MAX_DEPTH];
  int depth = 0, top_init = 0;
  int open_ok = 0;   /* number of containers to abandon on failure */

  *failed_at = -1;
#define ARG(k) ((i + (k) < tn) ? tv[i + (k)] : NULL)
#define TOP() do { if (depth == 0 && !top_init) { dbus_message_iter_init_append (m, &stack[0]); top_init = 1; } } while (0)
#define FAILED(abandon_from) do { *failed_at = (long) i; open_ok = (abandon_from); goto failed; } while (0)
#define BAD() do { *bad = 1; open_ok = depth; goto failed; } while (0)

  while (i < tn)
    {
      const char *op = tv[i];
      if (strcmp (op, "N") == 0)
        {
          if (m != NULL || ARG (1) == NULL) BAD ();
          m = dbus_message_new (atoi (ARG (1)));
          if (m == NULL) FAILED (0);
          i += 2;
        }
      else if (strcmp (op, "NC") == 0)
        {
          char *d, *pa, *ifc, *me;
          if (m != NULL || ARG (4) == NULL) BAD ();
          d = tok_str (ARG (1), bad); pa = tok_str (ARG (2), bad); ifc = tok_str (ARG (3), bad); me = tok_str (ARG (4), bad);
          if (*bad) BAD ();
          m = dbus_message_new_method_call (d, pa, ifc, me);
          if (m == NULL) FAILED (0);
          i += 5;
        }
      else if (strcmp (op, "NS") == 0)
        {
          char *pa, *ifc, *me;
          if (m != NULL || ARG (3) == NULL) BAD ();
          pa = tok_str (ARG (1), bad); ifc = tok_str (ARG (2), bad); me = tok_str (ARG (3), bad);
          if (*bad) BAD ();
          m = dbus_message_new_signal (pa, ifc, me);
          if (m == NULL) FAILED (0);
          i += 4;
        }
      else if (strcmp (op, "NR") == 0 || strcmp (op, "NE") == 0)
        {
          char *snd, *name = NULL, *emsg = NULL; DBusMessage *call;
          int is_err = op[1] == 'E';
          if (m != NULL || ARG (is_err ? 4 : 2) == NULL) BAD ();
          snd = tok_str (ARG (2), bad);
          if (is_err) { name = tok_str (ARG (3), bad); emsg = tok_str (ARG (4), bad); }
          if (*bad) BAD ();
          call = make_call_for_reply (ARG (1), snd);
          if (call == NULL) FAILED (0);
          m = is_err ? dbus_message_new_error (call, name, emsg) : dbus_message_new_method_return (call);
          dbus_message_unref (call);
          if (m == NULL) FAILED (0);
          i += is_err ? 5 : 3;
        }
      else if (m == NULL)
        BAD ();
      else if (op[0] && op[1] == 0 && strchr ("PIMEDSC", op[0]) != NULL)
        {
          char *s; dbus_bool_t ok = FALSE;
          if (depth != 0) BAD ();
          s = tok_str (ARG (1), bad);
          if (*bad) BAD ();
          switch (op[0])
            {
            case 'P': ok = dbus_message_set_path (m, s); break;
            case 'I': ok = dbus_message_set_interface (m, s); break;
            case 'M': ok = dbus_message_set_member (m, s); break;
            case 'E': ok = dbus_message_set_error_name (m, s); break;
            case 'D': ok = dbus_message_set_destination (m, s); break;
            case 'S': ok = dbus_message_set_sender (m, s); break;
            case 'C': ok = dbus_message_set_container_instance (m, s); break;
            default: break;
            }
          if (!ok) FAILED (0);
          i += 2;
        }
      else if (strcmp (op, "R") == 0)
        {
          if (ARG (1) == NULL) BAD ();
          if (!dbus_message_set_reply_serial (m, (dbus_uint32_t) strtoul (ARG (1), NULL, 10))) FAILED (depth);
          i += 2;
        }
      else if (strcmp (op, "FN") == 0 || strcmp (op, "FA") == 0 || strcmp (op, "FI") == 0)
        {
          int v;
          if (ARG (1) == NULL) BAD ();
          v = atoi (ARG (1));
          if (op[1] == 'N') dbus_message_set_no_reply (m, v);
          else if (op[1] == 'A') dbus_message_set_auto_start (m, v);
          else dbus_message_set_allow_interactive_authorization (m, v);
          i += 2;
        }
      else if (strcmp (op, "SER") == 0)
        {
          if (ARG (1) == NULL) BAD ();
          dbus_message_set_serial (m, (dbus_uint32_t) strtoul (ARG (1), NULL, 10));
          i += 2;
        }
      else if (strcmp (op, "IA") == 0)
        {
          if (depth != 0) BAD ();
          top_init = 0;
          i += 1;
        }
      else if (strcmp (op, "B") == 0)
        {
          BasicVal v; int code;
          if (ARG (2) == NULL) BAD ();
          code = ARG (1)[0];
          memset (&v, 0, sizeof v);
          parse_basic (code, ARG (2), &v, bad);
          if (*bad) BAD ();
          TOP ();
          if (!dbus_message_iter_append_basic (&stack[depth], code, &v)) FAILED (depth);
          i += 3;
        }
      else if (strcmp (op, "O") == 0)
        {
          int kind; char *sig = NULL;
          if (ARG (1) == NULL || depth + 1 >= MAX_DEPTH) BAD ();
          kind = ARG (1)[0];
          TOP ();
          if (kind == 'a' || kind == 'v')
            {
              sig = tok_str (ARG (2), bad);
              if (*bad || sig == NULL) BAD ();
              /* a failed open leaves the sub-iterator invalid: only the outer containers are abandoned */
              if (!dbus_message_iter_open_container (&stack[depth], kind == 'a' ? DBUS_TYPE_ARRAY : DBUS_TYPE_VARIANT,
                                                     sig, &stack[depth + 1])) FAILED (depth);
              i += 3;
            }
          else if (kind == 'r' || kind == 'e')
            {
              if (!dbus_message_iter_open_container (&stack[depth], kind == 'r' ? DBUS_TYPE_STRUCT : DBUS_TYPE_DICT_ENTRY,
                                                     NULL, &stack[depth + 1])) FAILED (depth);
              i += 2;
            }
          else BAD ();
          depth++;
        }
      else if (strcmp (op, "Z") == 0)
        {
          if (depth == 0) BAD ();
          /* even a failed close has closed and invalidated the sub-iterator */
          if (!dbus_message_iter_close_container (&stack[depth - 1], &stack[depth])) FAILED (depth - 1);
          depth--;
          i += 1;
        }
      else if (strcmp (op, "F") == 0 || strcmp (op, "AF") == 0)
        {
          unsigned char *buf = NULL; const void *ptr; long nb; int code, n;
          if (ARG (3) == NULL) BAD ();
          code = ARG (1)[0];
          n = atoi (ARG (2));
          nb = hc_unhex (ARG (3), &buf);
          if (nb < 0 || hc_fixed_size (code) == 0 || nb != (long) n * hc_fixed_size (code)) BAD ();
          arena_keep (buf);
          ptr = buf;
          if (op[0] == 'F')
            {
              if (depth == 0) BAD ();
              if (!dbus_message_iter_append_fixed_array (&stack[depth], code, &ptr, n)) FAILED (depth);
            }
          else
            {
              if (depth != 0) BAD ();
              top_init = 0;
              if (!dbus_message_append_args (m, DBUS_TYPE_ARRAY, code, &ptr, n, DBUS_TYPE_INVALID)) FAILED (0);
            }
          i += 4;
        }
      else if (strcmp (op, "AA") == 0)
        {
          BasicVal v; int code;
          if (ARG (2) == NULL || depth != 0) BAD ();
          code = ARG (1)[0];
          memset (&v, 0, sizeof v);
          parse_basic (code, ARG (2), &v, bad);
          if (*bad) BAD ();
          top_init = 0;
          if (!dbus_message_append_args (m, code, &v, DBUS_TYPE_INVALID)) FAILED (0);
          i += 3;
        }
      else if (strcmp (op, "AS") == 0)
        {
          int code, n, k; const char **arr;
          if (ARG (2) == NULL || depth != 0) BAD ();
          code = ARG (1)[0];
          n = atoi (ARG (2));
          if (n < 0 || i + 3 + (size_t) n > tn) BAD ();
          arr = arena_keep (malloc (sizeof (char *) * (size_t) (n + 1)));
          for (k = 0; k < n; k++)
            {
              arr[k] = tok_str (tv[i + 3 + k], bad);
              if (arr[k] == NULL) *bad = 1;
            }
          if (*bad) BAD ();
          top_init = 0;
          if (!dbus_message_append_args (m, DBUS_TYPE_ARRAY, code, &arr, n, DBUS_TYPE_INVALID)) FAILED (0);
          i += 3 + (size_t) n;
        }
      else
        BAD ();
    }
  if (m == NULL || depth != 0) { *bad = 1; open_ok = depth; goto failed; }
  return m;

 failed:
  {
    int j;
    /* documented contract: abandon every open container (innermost first), then drop the message */
    for (j = open_ok; j >= 1; j--)
      dbus_message_iter_abandon_container (&stack[j - 1], &stack[j]);
    if (m != NULL) dbus_message_unref (m);
  }
  return NULL;
#undef ARG
#undef TOP
#undef FAILED
#undef BAD
}

static int iter_build (Toks *t, int warm, int k, int nf)
{
  long failed_at = -1, b1 = -1, b2 = -1;
  int bad = 0, fired, leak;
  DBusMessage *m, *m2 = NULL;
  begin_run (k, nf, 0);
  warm_up (warm);
  arm (k, nf);
  m = run_build (t, 2, &failed_at, &bad);
  fired = disarm (k, nf);
  if (m != NULL) { b1 = blob_marshal (m); dbus_message_unref (m); }
  else if (!bad)
    {
      long f2 = -1;
      m2 = run_build (t, 2, &f2, &bad);
      if (m2 != NULL) { b2 = blob_marshal (m2); dbus_message_unref (m2); }
    }
  leak = end_run ();
  printf ("{\"k\":%d,\"n\":%d,\"fired\":%d,\"leak\":%d,\"bad\":%d,\"failed_at\":%ld", k, nf, fired, leak, bad, failed_at);
  put_blob ("bytes", b1);
  put_blob ("retry", b2);
  printf (",\"retried\":%d}", m == NULL && !bad);
  arena_free ();
  return fired;
}

/* ------------------------------------------------------------------ edit */

static dbus_bool_t append_local_arg (DBusMessage *m, int code, const char *tok, int *bad)
{
  BasicVal v;
  memset (&v, 0, sizeof v);
  if (tok == NULL) { *bad = 1; return FALSE; }
  if (code == 'A')
    {
      unsigned char *buf = NULL; const void *ptr;
      long nb = hc_unhex (tok, &buf);
      if (nb < 0) { *bad = 1; return FALSE; }
      arena_keep (buf);
      ptr = buf;
      return dbus_message_append_args (m, DBUS_TYPE_ARRAY, DBUS_TYPE_BYTE, &ptr, (int) nb, DBUS_TYPE_INVALID);
    }
  parse_basic (code, tok, &v, bad);
  if (*bad) return FALSE;
  return dbus_message_append_args (m, code, &v, DBUS_TYPE_INVALID);
}

/* start message of an edit script; *ops_at = index of the first op token */
static DBusMessage *edit_start (Toks *t, size_t *ops_at, int *bad)
{
  char **tv = t->tv; size_t tn = t->tn, i = 2;
  DBusMessage *m = NULL;
  if (tn < 4) { *bad = 1; return NULL; }
  if (strcmp (tv[i], "W") == 0)
    {
      unsigned char *buf = NULL;
      long n = hc_unhex (tv[i + 1], &buf);
      if (n < 0) { *bad = 1; return NULL; }
      m = dbus_message_demarshal ((const char *) buf, (int) n, NULL);
      free (buf);
      *ops_at = i + 2;
    }
  else if (strcmp (tv[i], "L") == 0)
    {
      int type, nargs, k;
      if (i + 3 >= tn) { *bad = 1; return NULL; }
      type = atoi (tv[i + 1]);
      nargs = atoi (tv[i + 3]);
      m = dbus_message_new (type);
      if (m != NULL) dbus_message_set_serial (m, (dbus_uint32_t) strtoul (tv[i + 2], NULL, 10));
      i += 4;
      for (k = 0; k < nargs && m != NULL; k++)
        {
          if (i + 1 >= tn) { *bad = 1; break; }
          if (!append_local_arg (m, tv[i][0], tv[i + 1], bad)) { dbus_message_unref (m); m = NULL; }
          i += 2;
        }
      *ops_at = i;
    }
  else *bad = 1;
  return m;
}

/* applies the op at token index *i; advances *i; returns the setter's result, -1 on a malformed op */
static int edit_apply (DBusMessage *m, Toks *t, size_t *i)
{
  char **tv = t->tv; size_t tn = t->tn;
  const char *op = tv[*i];
  int bad = 0;
  dbus_bool_t ret = FALSE;
  if (op[0] && op[1] == 0 && strchr ("DSPIMEC", op[0]) != NULL)
    {
      char *s;
      if (*i + 1 >= tn) return -1;
      s = tok_str (tv[*i + 1], &bad);
      if (bad) return -1;
      switch (op[0])
        {
        case 'D': ret = dbus_message_set_destination (m, s); break;
        case 'S': ret = dbus_message_set_sender (m, s); break;
        case 'P': ret = dbus_message_set_path (m, s); break;
        case 'I': ret = dbus_message_set_interface (m, s); break;
        case 'M': ret = dbus_message_set_member (m, s); break;
        case 'E': ret = dbus_message_set_error_name (m, s); break;
        case 'C': ret = dbus_message_set_container_instance (m, s); break;
        default: break;
        }
      *i += 2;
    }
  else if (strcmp (op, "R") == 0)
    {
      if (*i + 1 >= tn) return -1;
      ret = dbus_message_set_reply_serial (m, (dbus_uint32_t) strtoul (tv[*i + 1], NULL, 10));
      *i += 2;
    }
  else if (strcmp (op, "U") == 0)
    {
      ret = _dbus_message_remove_unknown_fields (m);
      *i += 1;
    }
  else return -1;
  return ret ? 1 : 0;
}

/* one run: steps 1..step-1 fault-free, step `step` under (k, nf), then the same step again fault-free when it
 * failed, then the remaining steps fault-free.  step == 0: reference run, prints the bytes after every step. */
static int iter_edit (Toks *t, int warm, int step, int k, int nf, int *nsteps_out)
{
  size_t i = 0;
  int bad = 0, fired = 0, leak, s = 0, ret = -2, retry_ret = -2;
  long before = -1, after = -1, after_retry = -1, end = -1;
  DBusMessage *m;
  begin_run (k, nf, step);
  m = edit_start (t, &i, &bad);
  if (m == NULL)
    {
      leak = end_run ();
      printf ("{\"k\":%d,\"n\":%d,\"step\":%d,\"fired\":0,\"leak\":%d,\"bad\":%d,\"nostart\":1}", k, nf, step, leak, bad);
      arena_free ();
      *nsteps_out = 0;
      return 0;
    }
  if (step == 0)
    {
      printf ("{\"k\":-1,\"n\":1,\"step\":0,\"fired\":0,\"steps\":[%ld", blob_marshal (m));
      while (i < t->tn)
        {
          int r = edit_apply (m, t, &i);
          if (r < 0) { bad = 1; break; }
          s++;
          printf (",%ld", blob_marshal (m));
        }
      dbus_message_unref (m);
      leak = end_run ();
      printf ("],\"leak\":%d,\"bad\":%d}", leak, bad);
      arena_free ();
      *nsteps_out = s;
      return 0;
    }
  while (i < t->tn && !bad)
    {
      s++;
      if (s == step)
        {
          size_t j = i;
          before = blob_marshal (m);
          warm_up (warm);
          arm (k, nf);
          ret = edit_apply (m, t, &i);
          fired = disarm (k, nf);
          if (ret < 0) { bad = 1; break; }
          after = blob_marshal (m);
          if (ret == 0)
            {
              retry_ret = edit_apply (m, t, &j);
              after_retry = blob_marshal (m);
            }
        }
      else if (edit_apply (m, t, &i) < 0) bad = 1;
    }
  end = blob_marshal (m);
  dbus_message_unref (m);
  leak = end_run ();
  printf ("{\"k\":%d,\"n\":%d,\"step\":%d,\"fired\":%d,\"leak\":%d,\"bad\":%d,\"ret\":%d,\"retry_ret\":%d",
          k, nf, step, fired, leak, bad, ret, retry_ret);
  put_blob ("before", before);
  put_blob ("after", after);
  put_blob ("after_retry", after_retry);
  put_blob ("end", end);
  fputc ('}', stdout);
  arena_free ();
  *nsteps_out = s;
  return fired;
}

/* ------------------------------------------------------------------ copy */

static int iter_copy (const unsigned char *buf, long n, int nfds, int warm, int k, int nf)
{
  int fds[MAX_FDS], i, fired, leak, fd0 = 0, fd1 = 0;
  DBusMessage *src, *cp, *cp2 = NULL;
  long src_before, src_after, cpb = -1, retryb = -1;
  char *ids_src = NULL, *ids_cp = NULL; size_t l1 = 0, l2 = 0; FILE *mf;
  begin_run (k, nf, 0);
  if (nfds > 0) fd0 = count_open_fds ();
  for (i = 0; i < nfds; i++) fds[i] = make_fd ();
  src = load_one (buf, n, fds, nfds);
  if (src == NULL)
    {
      leak = end_run ();
      printf ("{\"k\":%d,\"n\":%d,\"fired\":0,\"leak\":%d,\"nostart\":1}", k, nf, leak);
      return 0;
    }
  src_before = blob_marshal (src);
  warm_up (warm);
  arm (k, nf);
  cp = dbus_message_copy (src);
  fired = disarm (k, nf);
  src_after = blob_marshal (src);
  if (cp != NULL)
    {
      dbus_message_set_serial (cp, dbus_message_get_serial (src));
      cpb = blob_marshal (cp);
    }
  else
    {
      cp2 = dbus_message_copy (src);
      if (cp2 != NULL) { dbus_message_set_serial (cp2, dbus_message_get_serial (src)); retryb = blob_marshal (cp2); }
    }
  if (nfds > 0)
    {
      mf = open_memstream (&ids_src, &l1); put_msg_fds (mf, src); fclose (mf);
      mf = open_memstream (&ids_cp, &l2); put_msg_fds (mf, cp != NULL ? cp : cp2); fclose (mf);
    }
  if (cp != NULL) dbus_message_unref (cp);
  if (cp2 != NULL) dbus_message_unref (cp2);
  dbus_message_unref (src);
  leak = end_run ();
  if (nfds > 0) fd1 = count_open_fds ();
  printf ("{\"k\":%d,\"n\":%d,\"fired\":%d,\"leak\":%d,\"cp\":%d,\"retried\":%d,\"fd_delta\":%d", k, nf, fired, leak,
          cp != NULL, cp == NULL, fd1 - fd0);
  put_blob ("src_before", src_before);
  put_blob ("src_after", src_after);
  put_blob ("cpb", cpb);
  put_blob ("retry", retryb);
  if (nfds > 0) { printf (",\"src_fds\":%s,\"cp_fds\":%s", ids_src, ids_cp); free (ids_src); free (ids_cp); }
  fputc ('}', stdout);
  return fired;
}

/* ------------------------------------------------------------------ demarshal */

static int iter_demarshal (const unsigned char *buf, long n, int warm, int k, int nf)
{
  DBusError err;
  DBusMessage *m, *m2 = NULL;
  int fired, leak;
  long d = -1, d2 = -1;
  char errname[128] = "";
  begin_run (k, nf, 0);
  warm_up (warm);
  dbus_error_init (&err);
  arm (k, nf);
  m = dbus_message_demarshal ((const char *) buf, (int) n, &err);
  fired = disarm (k, nf);
  if (dbus_error_is_set (&err)) snprintf (errname, sizeof errname, "%s", err.name);
  dbus_error_free (&err);
  if (m != NULL) { d = blob_dump (m); dbus_message_unref (m); }
  else
    {
      m2 = dbus_message_demarshal ((const char *) buf, (int) n, NULL);
      if (m2 != NULL) { d2 = blob_dump (m2); dbus_message_unref (m2); }
    }
  leak = end_run ();
  printf ("{\"k\":%d,\"n\":%d,\"fired\":%d,\"leak\":%d,\"err\":", k, nf, fired, leak);
  if (errname[0]) printf ("\"%s\"", errname); else fputs ("null", stdout);
  put_blob ("msg", d);
  put_blob ("retry", d2);
  printf (",\"retried\":%d}", m == NULL);
  return fired;
}

/* ------------------------------------------------------------------ loader */

typedef struct
{
  int nmsgs;
  int nfds[8];
  unsigned char *bytes[8];
  long len[8];
  unsigned char *all;        /* concatenation */
  long total;
  long first_byte[8];        /* offset of message i in `all` */
  const char *chunks;
  int readfirst;
} LoaderCase;

static int iter_loader (LoaderCase *lc, int warm, int k, int nf)
{
  DBusMessageLoader *loader;
  int fds[8][MAX_FDS];
  char sent[8][MAX_FDS][64];
  int canary[MAX_CANARY]; char canary_id[MAX_CANARY][64]; int ncanary = 0, canary_ok = 1;
  int delivered[8];
  int i, j, fired, leak, fd0, fd1, ooms = 0, corrupt, reason = 0, npopped = 0, stuck = 0, deferred = 0, break_after_pop = 0;
  long off = 0;
  long dumps[16];
  char *gotfds[16]; size_t gotlen[16];
  const char *cp = lc->chunks;
  DBusMessage *m, *popped[16];

  begin_run (k, nf, 0);
  fd0 = count_open_fds ();
  for (i = 0; i < lc->nmsgs; i++)
    {
      delivered[i] = 0;
      for (j = 0; j < lc->nfds[i]; j++) { fds[i][j] = make_fd (); fd_id (fds[i][j], sent[i][j], 64); }
    }
  loader = _dbus_message_loader_new ();
  if (loader == NULL) { printf ("{\"k\":%d,\"n\":%d,\"fired\":0,\"leak\":0,\"nostart\":1}", k, nf); return 0; }
  warm_up (warm);
  arm (k, nf);

#define CANARY() do { if (ncanary < MAX_CANARY) { canary[ncanary] = make_fd (); fd_id (canary[ncanary], canary_id[ncanary], 64); ncanary++; } } while (0)

  while (off < lc->total && !stuck)
    {
      long take;
      int tries = 0;
      if (cp == NULL || *cp == '-' || *cp == 0) take = lc->total - off;
      else
        {
          take = strtol (cp, (char **) &cp, 10);
          if (*cp == ',') cp++;
          if (take > lc->total - off) take = lc->total - off;
          if (take <= 0) take = lc->total - off;
        }
      /* one read of the socket transport: buffer + descriptor slots, data, then queue_messages */
      for (;;)
        {
          DBusString *str; int max_to_read; dbus_bool_t may_fds;
          int *slot = NULL; unsigned max_slots = 0, nhand = 0;
          if (++tries > 50) { stuck = 1; break; }
          _dbus_message_loader_get_buffer (loader, &str, &max_to_read, &may_fds);
          if (!_dbus_message_loader_get_unix_fds (loader, &slot, &max_slots))
            {
              /* transport: OOM, give the buffer back and try again later */
              _dbus_message_loader_return_buffer (loader, str);
              ooms++; CANARY ();
              continue;
            }
          if (!_dbus_string_append_len (str, (const char *) lc->all + off, (int) take))
            {
              /* _dbus_read_socket_with_unix_fds could not grow the buffer: nothing was read */
              _dbus_message_loader_return_unix_fds (loader, slot, 0);
              _dbus_message_loader_return_buffer (loader, str);
              ooms++; CANARY ();
              continue;
            }
          /* descriptors of every message whose first byte is in this chunk arrive with it */
          for (i = 0; i < lc->nmsgs; i++)
            if (!delivered[i] && lc->first_byte[i] >= off && lc->first_byte[i] < off + take)
              {
                for (j = 0; j < lc->nfds[i] && nhand < max_slots; j++) slot[nhand++] = fds[i][j];
                delivered[i] = 1;
              }
          _dbus_message_loader_return_unix_fds (loader, slot, nhand);
          _dbus_message_loader_return_buffer (loader, str);
          break;
        }
      if (stuck) break;
      off += take;
      tries = 0;
      while (!_dbus_message_loader_queue_messages (loader))
        {
          /* NEED_MEMORY: do_reading() returns FALSE.  Either the dispatcher asks for the dispatch status next
           * (queue_messages again), or - readfirst - the socket is readable again first and do_reading() goes
           * straight to the next read with the complete message still in the buffer */
          ooms++; CANARY ();
          if (lc->readfirst && off < lc->total) { deferred++; break; }
          if (++tries > 50) { stuck = 1; break; }
        }
      /* a corrupted loader makes the transport disconnect: nothing more is read */
      if (_dbus_message_loader_get_is_corrupted (loader)) break_after_pop = 1;
      /* popping does not allocate; the messages are looked at only after the fault is disarmed */
      while (!stuck && (m = _dbus_message_loader_pop_message (loader)) != NULL)
        {
          if (npopped < 16) popped[npopped++] = m;
          else dbus_message_unref (m);
        }
      if (break_after_pop) break;
    }
  fired = disarm (k, nf);
  corrupt = (int) _dbus_message_loader_get_is_corrupted (loader);
  if (corrupt) reason = (int) _dbus_message_loader_get_corruption_reason (loader);
  for (i = 0; i < npopped; i++)
    {
      FILE *mf = open_memstream (&gotfds[i], &gotlen[i]);
      put_msg_fds (mf, popped[i]);
      fclose (mf);
      dumps[i] = blob_dump (popped[i]);
      dbus_message_unref (popped[i]);
    }
  /* descriptors that never reached the loader are still ours */
  for (i = 0; i < lc->nmsgs; i++)
    if (!delivered[i])
      for (j = 0; j < lc->nfds[i]; j++) close (fds[i][j]);
  _dbus_message_loader_unref (loader);
  for (i = 0; i < ncanary; i++)
    {
      char now[64];
      fd_id (canary[i], now, sizeof now);
      if (strcmp (now, canary_id[i]) != 0 || strcmp (now, "bad") == 0) canary_ok = 0;
      if (canary[i] >= 0) close (canary[i]);
    }
  leak = end_run ();
  fd1 = count_open_fds ();
  printf ("{\"k\":%d,\"n\":%d,\"fired\":%d,\"leak\":%d,\"ooms\":%d,\"deferred\":%d,\"stuck\":%d,\"corrupt\":%d,\"reason\":%d,\"canaries\":%d,\"canary_ok\":%d,\"fd_delta\":%d,\"sent\":[",
          k, nf, fired, leak, ooms, deferred, stuck, corrupt, reason, ncanary, canary_ok, fd1 - fd0);
  for (i = 0; i < lc->nmsgs; i++)
    {
      printf ("%s[", i ? "," : "");
      for (j = 0; j < lc->nfds[i]; j++) printf ("%s\"%s\"", j ? "," : "", sent[i][j]);
      fputc (']', stdout);
    }
  fputs ("],\"got\":[", stdout);
  for (i = 0; i < npopped; i++) { printf ("%s%s", i ? "," : "", gotfds[i]); free (gotfds[i]); }
  fputs ("],\"msgs\":[", stdout);
  for (i = 0; i < npopped; i++) printf ("%s%ld", i ? "," : "", dumps[i]);
  fputs ("]}", stdout);
  return fired;
#undef CANARY
}

/* ------------------------------------------------------------------ match rule */

static int iter_matchrule (const char *text, int warm, int k, int nf)
{
  DBusString str;
  DBusError err;
  BusMatchRule *rule, *rule2 = NULL;
  int fired, leak;
  char errname[128] = "", errname2[128] = "";
  begin_run (k, nf, 0);
  warm_up (warm);
  _dbus_string_init_const (&str, text);
  dbus_error_init (&err);
  arm (k, nf);
  rule = bus_match_rule_parse (NULL, &str, &err);
  fired = disarm (k, nf);
  if (dbus_error_is_set (&err)) snprintf (errname, sizeof errname, "%s", err.name);
  dbus_error_free (&err);
  if (rule == NULL)
    {
      dbus_error_init (&err);
      rule2 = bus_match_rule_parse (NULL, &str, &err);
      if (dbus_error_is_set (&err)) snprintf (errname2, sizeof errname2, "%s", err.name);
      dbus_error_free (&err);
    }
  if (rule != NULL) bus_match_rule_unref (rule);
  if (rule2 != NULL) bus_match_rule_unref (rule2);
  leak = end_run ();
  printf ("{\"k\":%d,\"n\":%d,\"fired\":%d,\"leak\":%d,\"ok\":%d,\"err\":", k, nf, fired, leak, rule != NULL);
  if (errname[0]) printf ("\"%s\"", errname); else fputs ("null", stdout);
  printf (",\"retried\":%d,\"retry_ok\":%d,\"retry_err\":", rule == NULL, rule2 != NULL);
  if (errname2[0]) printf ("\"%s\"", errname2); else fputs ("null", stdout);
  fputc ('}', stdout);
  return fired;
}

/* ------------------------------------------------------------------ configuration file */

static void json_str (FILE *f, const char *s)
{
  if (s == NULL) { fputs ("null", f); return; }
  fputc ('"', f);
  for (; *s; s++)
    {
      unsigned char c = (unsigned char) *s;
      if (c == '"' || c == '\\') fprintf (f, "\\%c", c);
      else if (c < 0x20 || c >= 0x7f) fprintf (f, "\\u%04x", c);
      else fputc (c, f);
    }
  fputc ('"', f);
}

static void dump_strlist (FILE *f, const char *name, DBusList **list)
{
  DBusList *l;
  int first = 1;
  fprintf (f, ",\"%s\":[", name);
  for (l = _dbus_list_get_first_link (list); l != NULL; l = _dbus_list_get_next_link (list, l))
    {
      if (!first) fputc (',', f);
      first = 0;
      json_str (f, l->data);
    }
  fputc (']', f);
}

static long blob_config (BusConfigParser *p)
{
  char *s; size_t sl; FILE *f;
  BusLimits lim;
  DBusList **dirs, *l;
  BusPolicy *pol;
  int first = 1;
  f = open_memstream (&s, &sl);
  fputs ("{\"type\":", f); json_str (f, bus_config_parser_get_type (p));
  fputs (",\"user\":", f); json_str (f, bus_config_parser_get_user (p));
  fputs (",\"pidfile\":", f); json_str (f, bus_config_parser_get_pidfile (p));
  fputs (",\"servicehelper\":", f); json_str (f, bus_config_parser_get_servicehelper (p));
  fprintf (f, ",\"fork\":%d,\"anon\":%d,\"syslog\":%d,\"keep_umask\":%d", (int) bus_config_parser_get_fork (p),
           (int) bus_config_parser_get_allow_anonymous (p), (int) bus_config_parser_get_syslog (p), (int) bus_config_parser_get_keep_umask (p));
  dump_strlist (f, "addresses", bus_config_parser_get_addresses (p));
  dump_strlist (f, "mechanisms", bus_config_parser_get_mechanisms (p));
  dump_strlist (f, "conf_dirs", bus_config_parser_get_conf_dirs (p));
  dirs = bus_config_parser_get_service_dirs (p);
  fputs (",\"service_dirs\":[", f);
  for (l = _dbus_list_get_first_link (dirs); l != NULL; l = _dbus_list_get_next_link (dirs, l))
    {
      BusConfigServiceDir *d = l->data;
      if (!first) fputc (',', f);
      first = 0;
      fprintf (f, "[%d,", (int) d->flags); json_str (f, d->path); fputc (']', f);
    }
  fputc (']', f);
  memset (&lim, 0, sizeof lim);
  bus_config_parser_get_limits (p, &lim);
  fprintf (f, ",\"limits\":[%ld,%ld,%ld,%ld,%ld,%ld,%d,%d,%d,%d,%d,%d,%d,%d,%d,%d,%d,%d,%d,%d,%d]",
           lim.max_incoming_bytes, lim.max_incoming_unix_fds, lim.max_outgoing_bytes, lim.max_outgoing_unix_fds,
           lim.max_message_size, lim.max_message_unix_fds, lim.activation_timeout, lim.auth_timeout, lim.pending_fd_timeout,
           lim.max_completed_connections, lim.max_incomplete_connections, lim.max_connections_per_user,
           lim.max_pending_activations, lim.max_services_per_connection, lim.max_match_rules_per_connection,
           lim.max_replies_per_connection, lim.reply_timeout, lim.max_containers, lim.max_containers_per_user,
           lim.max_connections_per_container, lim.max_container_metadata_bytes);
  /* the policy object is opaque: its verdict on a few identities (needs the user database, fault off) */
  pol = bus_config_parser_steal_policy (p);
  if (pol != NULL)
    {
      fprintf (f, ",\"allow_uid\":[%d,%d,%d,%d]", (int) bus_policy_allow_unix_user (pol, 0), (int) bus_policy_allow_unix_user (pol, 1),
               (int) bus_policy_allow_unix_user (pol, 5), (int) bus_policy_allow_unix_user (pol, 65534));
      bus_policy_unref (pol);
    }
  fputc ('}', f);
  fclose (f);
  return blob_intern (s, sl);
}

static int iter_config (void *pathv, int warm, int k, int nf)
{
  DBusString file;
  DBusError err;
  BusConfigParser *p, *p2 = NULL;
  int fired, leak, fd0 = count_open_fds (), fd1;
  long d = -1, d2 = -1;
  char errname[128] = "", errname2[128] = "";
  const char *path = pathv;
  begin_run (k, nf, 0);
  warm_up (warm);
  _dbus_string_init_const (&file, path);
  dbus_error_init (&err);
  arm (k, nf);
  p = bus_config_load (&file, TRUE, NULL, &err);
  fired = disarm (k, nf);
  if (dbus_error_is_set (&err)) snprintf (errname, sizeof errname, "%s", err.name);
  dbus_error_free (&err);
  if (p != NULL) { d = blob_config (p); bus_config_parser_unref (p); }
  else
    {
      dbus_error_init (&err);
      p2 = bus_config_load (&file, TRUE, NULL, &err);
      if (dbus_error_is_set (&err)) snprintf (errname2, sizeof errname2, "%s", err.name);
      dbus_error_free (&err);
      if (p2 != NULL) { d2 = blob_config (p2); bus_config_parser_unref (p2); }
    }
  leak = end_run ();
  fd1 = count_open_fds ();
  printf ("{\"k\":%d,\"n\":%d,\"fired\":%d,\"leak\":%d,\"fd_delta\":%d,\"err\":", k, nf, fired, leak, fd1 - fd0);
  if (errname[0]) printf ("\"%s\"", errname); else fputs ("null", stdout);
  put_blob ("cfg", d);
  put_blob ("retry", d2);
  printf (",\"retried\":%d,\"retry_err\":", p == NULL);
  if (errname2[0]) printf ("\"%s\"", errname2); else fputs ("null", stdout);
  fputc ('}', stdout);
  return fired;
}

/* ------------------------------------------------------------------ appending descriptors */

/* builds a method call to `path` and appends descriptors in the given shape; the message is dropped again in every
 * case, so all descriptors libdbus duplicated for it must be closed when this returns.  Returns 1 if every call succeeded. */
static int fdappend_once (const char *path, const char *shape, int src)
{
  DBusMessage *m = dbus_message_new_method_call (NULL, path, "com.example.I", "M");
  DBusMessageIter it, sub;
  int ok = 0;
  const char *str = "x";
  if (m == NULL) return 0;
  dbus_message_iter_init_append (m, &it);
  if (strcmp (shape, "h") == 0)
    ok = dbus_message_iter_append_basic (&it, DBUS_TYPE_UNIX_FD, &src);
  else if (strcmp (shape, "hh") == 0)
    ok = dbus_message_iter_append_basic (&it, DBUS_TYPE_UNIX_FD, &src) && dbus_message_iter_append_basic (&it, DBUS_TYPE_UNIX_FD, &src);
  else if (strcmp (shape, "sh") == 0)
    ok = dbus_message_iter_append_basic (&it, DBUS_TYPE_STRING, &str) && dbus_message_iter_append_basic (&it, DBUS_TYPE_UNIX_FD, &src);
  else if (strcmp (shape, "args") == 0)
    ok = dbus_message_append_args (m, DBUS_TYPE_UNIX_FD, &src, DBUS_TYPE_STRING, &str, DBUS_TYPE_UNIX_FD, &src, DBUS_TYPE_INVALID);
  else
    {
      int type = DBUS_TYPE_ARRAY; const char *sig = "h";
      if (strcmp (shape, "(hs)") == 0) { type = DBUS_TYPE_STRUCT; sig = NULL; }
      else if (strcmp (shape, "v") == 0) { type = DBUS_TYPE_VARIANT; }
      if (dbus_message_iter_open_container (&it, type, sig, &sub))
        {
          ok = dbus_message_iter_append_basic (&sub, DBUS_TYPE_UNIX_FD, &src);
          if (ok && type == DBUS_TYPE_ARRAY) ok = dbus_message_iter_append_basic (&sub, DBUS_TYPE_UNIX_FD, &src);
          if (ok && type == DBUS_TYPE_STRUCT) ok = dbus_message_iter_append_basic (&sub, DBUS_TYPE_STRING, &str);
          if (ok) ok = dbus_message_iter_close_container (&it, &sub);
          else dbus_message_iter_abandon_container (&it, &sub);
        }
    }
  dbus_message_unref (m);
  return ok;
}

static int iter_fdappend (void *ctx, int warm, int k, int nf)
{
  Toks *t = ctx;
  int bad = 0, fired, leak, ok, ok2 = -1, src, fd0 = count_open_fds (), fd1;
  const char *path = tok_str (t->tv[2], &bad);
  const char *shape = t->tn > 3 ? t->tv[3] : "h";
  if (bad || path == NULL) { printf ("{\"bad\":1}"); return 0; }
  begin_run (k, nf, 0);
  warm_up (warm);
  src = make_fd ();
  arm (k, nf);
  ok = fdappend_once (path, shape, src);
  fired = disarm (k, nf);
  if (!ok) ok2 = fdappend_once (path, shape, src);
  close (src);
  leak = end_run ();
  fd1 = count_open_fds ();
  printf ("{\"k\":%d,\"n\":%d,\"fired\":%d,\"leak\":%d,\"fd_delta\":%d,\"ok\":%d,\"retried\":%d,\"retry_ok\":%d}", k, nf, fired, leak, fd1 - fd0, ok, !ok, ok2);
  return fired;
}

/* ------------------------------------------------------------------ driver */

typedef int (*IterFn) (void *ctx, int warm, int step, int k, int nf);

static int klimit_hit = 0;

/* enumerate k for one (case, step): single failures, then bursts of two */
static void enumerate (IterFn fn, void *ctx, int warm, int step)
{
  int nf, k;
  for (nf = 1; nf <= 2; nf++)
    for (k = 0; ; k++)
      {
        int fired;
        fputc (',', stdout);
        fired = fn (ctx, warm, step, k, nf);
        if (!fired) break;
        if (k >= K_LIMIT) { klimit_hit = 1; break; }
      }
}

typedef struct { const unsigned char *buf; long n; int nfds; } BytesCtx;

static int fn_build (void *ctx, int warm, int step, int k, int nf) { (void) step; return iter_build (ctx, warm, k, nf); }
static int fn_edit (void *ctx, int warm, int step, int k, int nf) { int ns; return iter_edit (ctx, warm, step, k, nf, &ns); }
static int fn_copy (void *ctx, int warm, int step, int k, int nf) { BytesCtx *b = ctx; (void) step; return iter_copy (b->buf, b->n, b->nfds, warm, k, nf); }
static int fn_demarshal (void *ctx, int warm, int step, int k, int nf) { BytesCtx *b = ctx; (void) step; return iter_demarshal (b->buf, b->n, warm, k, nf); }
static int fn_loader (void *ctx, int warm, int step, int k, int nf) { (void) step; return iter_loader (ctx, warm, k, nf); }
static int fn_matchrule (void *ctx, int warm, int step, int k, int nf) { (void) step; return iter_matchrule (ctx, warm, k, nf); }
static int fn_config (void *ctx, int warm, int step, int k, int nf) { (void) step; return iter_config (ctx, warm, k, nf); }
static int fn_fdappend (void *ctx, int warm, int step, int k, int nf) { (void) step; return iter_fdappend (ctx, warm, k, nf); }

static void run_case (char *line)
{
  Toks t = split (line);
  const char *op;
  int warm;
  klimit_hit = 0;
  if (t.tn >= 1 && strcmp (t.tv[0], "END") == 0)
    {
      dbus_shutdown ();
      printf ("{\"k\":\"END\",\"blocks\":%d,\"base\":%d}\n", _dbus_get_malloc_blocks_outstanding (), base_blocks);
      free (t.tv);
      return;
    }
  if (t.tn < 3) { printf ("{\"k\":\"bad-line\"}\n"); free (t.tv); return; }
  op = t.tv[0];
  warm = atoi (t.tv[1]);
  printf ("{\"k\":\"O\",\"op\":\"%s\",\"runs\":[", op);
  if (strcmp (op, "build") == 0)
    {
      iter_build (&t, warm, -1, 1);
      enumerate (fn_build, &t, warm, 0);
    }
  else if (strcmp (op, "edit") == 0)
    {
      int nsteps = 0, s;
      iter_edit (&t, warm, 0, -1, 1, &nsteps);
      for (s = 1; s <= nsteps; s++) enumerate (fn_edit, &t, warm, s);
    }
  else if ((strcmp (op, "copy") == 0 && t.tn >= 4) || strcmp (op, "demarshal") == 0)
    {
      BytesCtx b; unsigned char *buf = NULL;
      int is_copy = op[0] == 'c';
      b.nfds = is_copy ? atoi (t.tv[2]) : 0;
      if (b.nfds > MAX_FDS) b.nfds = MAX_FDS;
      b.n = hc_unhex (t.tv[is_copy ? 3 : 2], &buf);
      b.buf = buf;
      if (b.n >= 0)
        {
          if (is_copy) { iter_copy (b.buf, b.n, b.nfds, warm, -1, 1); enumerate (fn_copy, &b, warm, 0); }
          else { iter_demarshal (b.buf, b.n, warm, -1, 1); enumerate (fn_demarshal, &b, warm, 0); }
          free (buf);
        }
      else printf ("{\"bad\":1}");
    }
  else if (strcmp (op, "loader") == 0 && t.tn >= 5)
    {
      LoaderCase lc;
      char *p, *save;
      int ok = 1, i;
      memset (&lc, 0, sizeof lc);
      for (p = strtok_r (t.tv[2], ",", &save); p != NULL && lc.nmsgs < 8; p = strtok_r (NULL, ",", &save))
        { lc.nfds[lc.nmsgs] = atoi (p); if (lc.nfds[lc.nmsgs] > MAX_FDS) lc.nfds[lc.nmsgs] = MAX_FDS; lc.nmsgs++; }
      i = 0;
      for (p = strtok_r (t.tv[3], ",", &save); p != NULL && i < lc.nmsgs; p = strtok_r (NULL, ",", &save), i++)
        { lc.len[i] = hc_unhex (p, &lc.bytes[i]); if (lc.len[i] < 0) ok = 0; }
      if (i != lc.nmsgs) ok = 0;
      if (ok)
        {
          for (i = 0; i < lc.nmsgs; i++) { lc.first_byte[i] = lc.total; lc.total += lc.len[i]; }
          lc.all = malloc (lc.total > 0 ? (size_t) lc.total : 1);
          for (i = 0; i < lc.nmsgs; i++) memcpy (lc.all + lc.first_byte[i], lc.bytes[i], (size_t) lc.len[i]);
          lc.chunks = t.tv[4];
          lc.readfirst = t.tn >= 6 ? atoi (t.tv[5]) : 0;
          iter_loader (&lc, warm, -1, 1);
          enumerate (fn_loader, &lc, warm, 0);
          free (lc.all);
        }
      else printf ("{\"bad\":1}");
      for (i = 0; i < lc.nmsgs; i++) if (lc.len[i] >= 0) free (lc.bytes[i]);
    }
  else if (strcmp (op, "matchrule") == 0)
    {
      int bad = 0;
      char *text = tok_str (t.tv[2], &bad);
      if (text != NULL && !bad)
        {
          /* the arena is emptied by other ops only; keep the text alive by copying it */
          char *copy = strdup (text);
          iter_matchrule (copy, warm, -1, 1);
          enumerate (fn_matchrule, copy, warm, 0);
          free (copy);
        }
      else printf ("{\"bad\":1}");
    }
  else if (strcmp (op, "fdappend") == 0)
    {
      iter_fdappend (&t, warm, -1, 1);
      enumerate (fn_fdappend, &t, warm, 0);
    }
  else if (strcmp (op, "config") == 0)
    {
      int bad = 0;
      char *text = tok_str (t.tv[2], &bad);
      if (text != NULL && !bad)
        {
          /* the configuration text is written to a scratch file (fault off) and removed afterwards */
          char path[256];
          int fd;
          snprintf (path, sizeof path, "%s/verif-c14-conf-XXXXXX", getenv ("VERIF_RUNDIR") ? getenv ("VERIF_RUNDIR") : "/tmp");
          fd = mkstemp (path);
          if (fd < 0 || write (fd, text, strlen (text)) != (ssize_t) strlen (text)) { perror ("config scratch file"); exit (3); }
          close (fd);
          iter_config (path, warm, -1, 1);
          enumerate (fn_config, path, warm, 0);
          unlink (path);
        }
      else printf ("{\"bad\":1}");
    }
  else
    printf ("{\"bad\":1}");
  fputs ("],", stdout);
  blobs_print_and_free (stdout);
  printf (",\"klimit\":%d}\n", klimit_hit);
  arena_free ();
  free (t.tv);
}

int main (void)
{
  char *line;
  setvbuf (stdout, NULL, _IOFBF, 1 << 16);
  /* baseline: whatever survives a shutdown of a library that has been used once */
  {
    DBusMessage *w = dbus_message_new (DBUS_MESSAGE_TYPE_METHOD_CALL);
    if (w != NULL) dbus_message_unref (w);
    dbus_shutdown ();
    base_blocks = _dbus_get_malloc_blocks_outstanding ();
  }
  while ((line = hc_readline ()) != NULL)
    {
      case_no++;
      run_case (line);
      fflush (stdout);
      free (line);
    }
  free (arena);
  free (blobs);
  free (blob_len);
  dbus_shutdown ();
  return 0;
}
