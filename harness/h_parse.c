/* C01 / C11 executor: feeds byte strings to dbus_message_demarshal and to a DBusMessageLoader.
 *
 * stdin lines:
 *   D <hex>                          demarshal_bytes_needed + demarshal on an exactly-sized copy
 *   L <max_message_size|0> <hex> <c1,c2,...|->   loader, bytes fed in the given chunk sizes
 * stdout: one JSON line per case.
 */
#include "hcommon.h"
#include <fcntl.h>
#include <dbus/dbus-internals.h>
#include <dbus/dbus-string.h>
#include <dbus/dbus-message-internal.h>
#include <dbus/dbus-marshal-validate.h>

static unsigned long case_no = 0;

void __asan_on_error (void);
void __asan_on_error (void)
{
  fprintf (stderr, "VERIF-CASE %lu\n", case_no);
}

static void do_demarshal (const char *hex)
{
  unsigned char *buf = NULL;
  long n = hc_unhex (hex, &buf);
  DBusError err;
  DBusMessage *m;
  int needed;
  if (n < 0) { printf ("{\"k\":\"bad-input\"}\n"); return; }
  needed = dbus_message_demarshal_bytes_needed ((const char *) buf, (int) n);
  dbus_error_init (&err);
  m = dbus_message_demarshal ((const char *) buf, (int) n, &err);
  printf ("{\"k\":\"D\",\"needed\":%d,\"err\":", needed);
  if (dbus_error_is_set (&err)) printf ("\"%s\"", err.name); else printf ("null");
  printf (",\"msg\":");
  if (m != NULL) { hc_dump_message (stdout, m, 1); dbus_message_unref (m); } else printf ("null");
  printf ("}\n");
  dbus_error_free (&err);
  free (buf);
}

static void do_loader_fds (long maxsize, const char *hex, const char *chunks, int nfds);

static void do_loader (long maxsize, const char *hex, const char *chunks)
{
  do_loader_fds (maxsize, hex, chunks, 0);
}

static void do_loader_fds (long maxsize, const char *hex, const char *chunks, int nfds)
{
  unsigned char *buf = NULL;
  long n = hc_unhex (hex, &buf);
  long off = 0;
  DBusMessageLoader *loader;
  DBusMessage *m;
  int first = 1, firstm = 1;
  int popped_total = 0;
  const char *cp = chunks;
  /* popped messages are dumped as they appear */
  if (n < 0) { printf ("{\"k\":\"bad-input\"}\n"); return; }
  loader = _dbus_message_loader_new ();
  if (maxsize > 0) _dbus_message_loader_set_max_message_size (loader, maxsize);
  if (nfds > 0)
    {
      /* descriptors arrive with the first byte, as over a unix socket with SCM_RIGHTS */
      int *fds = NULL; unsigned max_fds = 0; int i;
      if (!_dbus_message_loader_get_unix_fds (loader, &fds, &max_fds)) { fprintf (stderr, "oom\n"); exit (3); }
      if ((unsigned) nfds > max_fds) nfds = (int) max_fds;
      for (i = 0; i < nfds; i++) fds[i] = open ("/dev/null", O_RDONLY | O_CLOEXEC);
      _dbus_message_loader_return_unix_fds (loader, fds, (unsigned) nfds);
    }
  printf ("{\"k\":\"L\",\"msgs\":[");
  {
    /* we need to print trace after msgs; collect trace in a buffer */
    size_t tcap = 256, tn = 0;
    char *trace = malloc (tcap);
    trace[0] = 0;
    while (off < n || first)
      {
        long take;
        DBusString *str; int max_to_read; dbus_bool_t may_fds;
        if (cp == NULL || *cp == '-' || *cp == 0) take = n - off;
        else
          {
            take = strtol (cp, (char **) &cp, 10);
            if (*cp == ',') cp++;
            if (take > n - off) take = n - off;
            if (take < 0) take = 0;
          }
        _dbus_message_loader_get_buffer (loader, &str, &max_to_read, &may_fds);
        if (take > 0 && !_dbus_string_append_len (str, (const char *) buf + off, (int) take))
          { fprintf (stderr, "oom\n"); exit (3); }
        _dbus_message_loader_return_buffer (loader, str);
        off += take;
        if (!_dbus_message_loader_queue_messages (loader)) { fprintf (stderr, "oom\n"); exit (3); }
        while ((m = _dbus_message_loader_pop_message (loader)) != NULL)
          {
            if (!firstm) fputc (',', stdout);
            firstm = 0;
            hc_dump_message (stdout, m, 1);
            dbus_message_unref (m);
            popped_total++;
          }
        {
          char one[64];
          int l = snprintf (one, sizeof one, "%s[%ld,%d,%d]", first ? "" : ",", off, popped_total,
                            (int) _dbus_message_loader_get_is_corrupted (loader));
          if (tn + l + 1 > tcap) { tcap = (tcap + l) * 2; trace = realloc (trace, tcap); }
          memcpy (trace + tn, one, l + 1); tn += l;
        }
        first = 0;
        if (take == 0 && off < n && (cp == NULL || *cp == 0)) break;
      }
    printf ("],\"corrupt\":%d,\"reason\":%d,\"trace\":[%s]}\n",
            (int) _dbus_message_loader_get_is_corrupted (loader),
            (int) (_dbus_message_loader_get_is_corrupted (loader) ? _dbus_message_loader_get_corruption_reason (loader) : 0),
            trace);
    free (trace);
  }
  _dbus_message_loader_unref (loader);
  free (buf);
}

int main (void)
{
  char *line;
  setvbuf (stdout, NULL, _IOFBF, 1 << 16);
  while ((line = hc_readline ()) != NULL)
    {
      case_no++;
      if (line[0] == 'D' && line[1] == ' ')
        do_demarshal (line + 2);
      else if (line[0] == 'L' && line[1] == ' ')
        {
          char *p = line + 2;
          long maxsize = strtol (p, &p, 10);
          char *hex, *chunks;
          while (*p == ' ') p++;
          hex = p;
          while (*p && *p != ' ') p++;
          if (*p) { *p++ = 0; }
          chunks = p;
          do_loader (maxsize, hex, chunks);
        }
      else if (line[0] == 'F' && line[1] == ' ')
        {
          /* F <nfds> <hex> <chunks>: loader that already holds nfds received descriptors */
          char *p = line + 2;
          long nfds = strtol (p, &p, 10);
          char *hex, *chunks;
          while (*p == ' ') p++;
          hex = p;
          while (*p && *p != ' ') p++;
          if (*p) { *p++ = 0; }
          chunks = p;
          do_loader_fds (0, hex, chunks, (int) nfds);
        }
      else
        printf ("{\"k\":\"bad-line\"}\n");
      fflush (stdout);
      free (line);
    }
  dbus_shutdown ();
  return 0;
}
