/* C17 executor: pending calls of a client DBusConnection talking to the scripted Python peer.
 *
 * One case per stdin line:
 *     <nthreads> <ncalls> <min_run_ms> <drain_ms> <ops>
 * ops are ';'-separated, written in a global order; every op starts with the digit of the thread that
 * executes it (each thread runs its own subsequence in order; an op on call <c> waits until the thread
 * that sends call <c> has done so):
 *     S<c>,<timeout_ms>,<n>   dbus_connection_send_with_reply (n: 0 no notify, 1 notify that steals, 2 notify only)
 *     N<c>,<steal>            dbus_pending_call_set_notify
 *     X<c>                    dbus_pending_call_cancel (at most once per call)
 *     B<c>                    dbus_pending_call_block
 *     G<c>                    dbus_pending_call_get_completed
 *     T<c>                    dbus_pending_call_steal_reply, only if completed and not yet stolen
 *     W<c>,<timeout_ms>       dbus_connection_send_with_reply_and_block
 *     P<ms>                   dbus_connection_read_write_dispatch (conn, ms), then fire due timeouts
 *     R<ms>                   dbus_connection_read_write (conn, ms)
 *     D                       dbus_connection_dispatch once
 *     F                       fire due timeouts (dbus_timeout_handle) - the application's timer duty
 *     Z<us>                   usleep
 *     A<n>,<q>                barrier without a clock: wait until n calls of the case have been sent with S (so their bytes
 *                             are on the socket: nobody was inside a blocking wait yet), and, if q, until something is in
 *                             the incoming queue (dbus_connection_get_dispatch_status == DATA_REMAINS: some other thread
 *                             has started reading, i.e. a W thread's call, written before it reads, is on the socket too)
 *     M<mode>,<us>            re-register the timeout functions for the harness's next main-loop context (see tm_register):
 *                             mode 0 same function pointers / other data, 1 other function pointers, 2 NULL functions,
 *                             <us> without a main loop, then the functions again; logs "rereg" with b = timeouts that
 *                             were registered, m = [lost (in no context afterwards), left in another context, duplicated]
 *     C<max_ms>               reply-then-close cases: without reading, wait (poll() on the connection's fd, as a main loop
 *                             would) until the peer's hangup is pending on the socket - the stream is ordered, so
 *                             whatever the peer wrote before closing is in the socket buffer by then; logs "chk" with
 *                             a = hangup seen, b = bytes readable (FIONREAD), m[0] = revents.  The next read of the
 *                             connection therefore consumes the peer's last bytes and the EOF in one iteration.
 *     J<watch_ms>             (thread 0 only, multi-blocker cases) wait until every other thread has finished its ops;
 *                             once the first blocking wait (B / W) of the case has returned the clock runs: a thread still
 *                             inside its blocking wait watch_ms later is reported ({"mb_stuck":1,...}) instead of the
 *                             normal result, and the process waits to be killed (its threads are stuck inside libdbus)
 * The harness is the "main loop": it installs timeout functions and calls dbus_timeout_handle when an
 * enabled timeout's interval has elapsed.  After all threads finished, the main thread keeps pumping
 * until min_run_ms have passed and every call that must complete (not cancelled; finite timeout or
 * connection lost) has completed, or drain_ms have passed (reported, judged in Python).
 *
 * Every observation is appended to an append-only log whose index is reserved with one atomic
 * fetch-add (the index is the global sequence number), printed as JSON at the end of the case.
 *
 * argv[1] = peer address.
 */
#include "hcommon.h"
#include <pthread.h>
#include <stdatomic.h>
#include <time.h>
#include <errno.h>
#include <poll.h>
#include <sys/ioctl.h>
#ifndef POLLRDHUP
#define POLLRDHUP 0x2000        /* Linux; <poll.h> shows it only under _GNU_SOURCE */
#endif

#define MAX_CALLS 64
#define MAX_THREADS 6
#define MAX_OPS 1024
#define MAX_EV 16384
#define MAX_TIMEOUTS 256
#define FINITE_LIMIT 1000      /* timeouts below this many ms are "short": they must have fired by the end of the drain */

enum { ST_EMPTY = 0, ST_LIVE = 1, ST_VOID = 2 };

typedef struct
{
  int idx;
  _Atomic int state;
  DBusPendingCall *pc;
  unsigned serial;
  int timeout_ms;
  _Atomic int stolen;
  _Atomic int cancelled;
  _Atomic int notify_steal;
  _Atomic int blk;                  /* blocking wait (B / W) on this call: 0 none, 1 entered, 2 returned */
  _Atomic int blk_tid;
  _Atomic long long blk_beg_us, blk_end_us;
} Call;

typedef struct { int tid; char code; long a, b, c; } Op;

typedef struct
{
  const char *k;
  int tid, call, phase;
  long a, b;
  int rtype;
  unsigned rs;
  char name[72];
  long m[3];
  int nm;
  long t_us;
} Ev;

typedef struct { DBusTimeout *t; long long due; int enabled; int firing; int ctx; } TSlot;

static DBusConnection *conn;
static Call calls[MAX_CALLS];
static Op ops[MAX_OPS];
static int n_ops;
static Ev evs[MAX_EV];
static _Atomic int n_ev;
static _Atomic int phase;           /* 0 script, 1 drain, 2 teardown */
static TSlot tslots[MAX_TIMEOUTS];
static pthread_mutex_t tm_mu = PTHREAD_MUTEX_INITIALIZER;
static _Atomic long n_timer_fired;
static _Atomic int n_timer_lost;
static long long t0_us;
static __thread int my_tid;
static _Atomic long long first_return_us;   /* when the first blocking wait of this case returned (absolute), 0 = none yet */
static _Atomic int n_threads_done;          /* threads other than 0 that have finished their ops */
static int cur_nthreads, cur_ncalls;

static long long
now_us (void)
{
  struct timespec ts;
  clock_gettime (CLOCK_MONOTONIC, &ts);
  return (long long) ts.tv_sec * 1000000LL + ts.tv_nsec / 1000;
}

static Ev *
ev_new (const char *k, int call)
{
  int i = atomic_fetch_add (&n_ev, 1);
  Ev *e;
  static Ev dummy;
  if (i >= MAX_EV) return &dummy;
  e = &evs[i];
  e->k = k; e->tid = my_tid; e->call = call; e->phase = atomic_load (&phase);
  e->a = e->b = 0; e->rtype = -1; e->rs = 0; e->name[0] = 0; e->nm = 0;
  e->t_us = (long) (now_us () - t0_us);
  return e;
}

static void
ev_reply (Ev *e, DBusMessage *m)
{
  DBusMessageIter it;
  const char *n;
  if (m == NULL) { e->rtype = 0; return; }
  e->rtype = dbus_message_get_type (m);
  e->rs = dbus_message_get_reply_serial (m);
  n = dbus_message_get_error_name (m);
  if (n) { strncpy (e->name, n, sizeof e->name - 1); e->name[sizeof e->name - 1] = 0; }
  if (dbus_message_iter_init (m, &it))
    {
      if (dbus_message_iter_get_arg_type (&it) == DBUS_TYPE_STRING)
        dbus_message_iter_next (&it);
      while (e->nm < 3 && dbus_message_iter_get_arg_type (&it) == DBUS_TYPE_UINT32)
        {
          dbus_uint32_t v;
          dbus_message_iter_get_basic (&it, &v);
          e->m[e->nm++] = (long) v;
          dbus_message_iter_next (&it);
        }
    }
}

/* ------------------------------------------------------------------ the application's timer duty */

/* The harness's main loop has several "contexts" (think GMainContext): one timer table, every entry belongs to the
 * context whose id libdbus passed as callback data when it handed the timeout over.  Only the context libdbus was
 * last given (cur_ctx) is run: timers are fired from it alone.  Op M moves the connection to another context by
 * calling dbus_connection_set_timeout_functions again. */
#define N_CTX 3
static int ctx_ids[N_CTX] = { 0, 1, 2 };
static _Atomic int cur_ctx;         /* -1 while the timeout functions are NULL */
static int cur_alt;                 /* which of the two sets of callback functions is registered */

static dbus_bool_t
tm_add (DBusTimeout *t, void *data)
{
  int i;
  dbus_bool_t ok = FALSE;
  pthread_mutex_lock (&tm_mu);
  for (i = 0; i < MAX_TIMEOUTS; i++)
    if (tslots[i].t == NULL)
      {
        tslots[i].t = t;
        tslots[i].ctx = data ? *(int *) data : 0;
        tslots[i].enabled = dbus_timeout_get_enabled (t);
        tslots[i].due = now_us () + 1000LL * dbus_timeout_get_interval (t);
        tslots[i].firing = 0;
        ok = TRUE;
        break;
      }
  pthread_mutex_unlock (&tm_mu);
  return ok;
}

static void
tm_remove (DBusTimeout *t, void *data)
{
  int i, found = 0;
  pthread_mutex_lock (&tm_mu);
  int ctx = data ? *(int *) data : 0;
  for (i = 0; i < MAX_TIMEOUTS; i++)
    if (tslots[i].t == t && tslots[i].ctx == ctx) { tslots[i].t = NULL; found = 1; }
  pthread_mutex_unlock (&tm_mu);
  if (!found) atomic_fetch_add (&n_timer_lost, 1);
}

static void
tm_toggled (DBusTimeout *t, void *data)
{
  int i;
  pthread_mutex_lock (&tm_mu);
  for (i = 0; i < MAX_TIMEOUTS; i++)
    if (tslots[i].t == t && tslots[i].ctx == (data ? *(int *) data : 0))
      {
        tslots[i].enabled = dbus_timeout_get_enabled (t);
        tslots[i].due = now_us () + 1000LL * dbus_timeout_get_interval (t);
      }
  pthread_mutex_unlock (&tm_mu);
}

static int
tm_count_short (void)
{
  int i, n = 0;
  pthread_mutex_lock (&tm_mu);
  for (i = 0; i < MAX_TIMEOUTS; i++)
    if (tslots[i].t != NULL && tslots[i].ctx == atomic_load (&cur_ctx) && dbus_timeout_get_interval (tslots[i].t) < FINITE_LIMIT) n++;
  pthread_mutex_unlock (&tm_mu);
  return n;
}

static int
tm_count (void)
{
  int i, n = 0;
  pthread_mutex_lock (&tm_mu);
  for (i = 0; i < MAX_TIMEOUTS; i++)
    if (tslots[i].t != NULL && tslots[i].ctx == atomic_load (&cur_ctx)) n++;
  pthread_mutex_unlock (&tm_mu);
  return n;
}

/* the same callbacks under other addresses: re-registration with DIFFERENT function pointers */
static dbus_bool_t tm_add_alt (DBusTimeout *t, void *data) { return tm_add (t, data); }
static void tm_remove_alt (DBusTimeout *t, void *data) { tm_remove (t, data); }
static void tm_toggled_alt (DBusTimeout *t, void *data) { tm_toggled (t, data); }

static dbus_bool_t
tm_register (int alt, int ctx)
{
  dbus_bool_t ok;
  if (ctx < 0)
    ok = dbus_connection_set_timeout_functions (conn, NULL, NULL, NULL, NULL, NULL);
  else if (alt)
    ok = dbus_connection_set_timeout_functions (conn, tm_add_alt, tm_remove_alt, tm_toggled_alt, &ctx_ids[ctx], NULL);
  else
    ok = dbus_connection_set_timeout_functions (conn, tm_add, tm_remove, tm_toggled, &ctx_ids[ctx], NULL);
  if (ok) { atomic_store (&cur_ctx, ctx); if (ctx >= 0) cur_alt = alt; }
  return ok;
}

/* how often is timeout t registered in context ctx / in any other context */
static void
tm_where (DBusTimeout *t, int ctx, int *in_ctx, int *elsewhere)
{
  int i;
  *in_ctx = *elsewhere = 0;
  pthread_mutex_lock (&tm_mu);
  for (i = 0; i < MAX_TIMEOUTS; i++)
    if (tslots[i].t == t) { if (tslots[i].ctx == ctx) (*in_ctx)++; else (*elsewhere)++; }
  pthread_mutex_unlock (&tm_mu);
}

/* Fire every enabled timeout whose interval has elapsed.  The list lock is NOT held across
 * dbus_timeout_handle (the handler takes the connection lock, and libdbus calls tm_remove with
 * the connection lock held). */
static int
tm_fire_due (void)
{
  int i, fired = 0;
  pthread_mutex_lock (&tm_mu);
  for (i = 0; i < MAX_TIMEOUTS; i++)
    {
      DBusTimeout *t = tslots[i].t;
      int ctx = tslots[i].ctx;
      if (t != NULL && ctx == atomic_load (&cur_ctx) && tslots[i].enabled && !tslots[i].firing && tslots[i].due <= now_us ())
        {
          tslots[i].firing = 1;
          pthread_mutex_unlock (&tm_mu);
          dbus_timeout_handle (t);
          fired++;
          pthread_mutex_lock (&tm_mu);
          if (tslots[i].t == t && tslots[i].ctx == ctx)
            {
              tslots[i].firing = 0;
              tslots[i].due = now_us () + 1000LL * dbus_timeout_get_interval (t);
            }
        }
    }
  pthread_mutex_unlock (&tm_mu);
  if (fired) atomic_fetch_add (&n_timer_fired, fired);
  return fired;
}

static int gated_fire (void);
static int timer_gate;

/* ------------------------------------------------------------------ operations */

static void
do_steal (Call *c, int ctx)
{
  DBusMessage *m;
  Ev *e;
  if (atomic_exchange (&c->stolen, 1)) return;
  m = dbus_pending_call_steal_reply (c->pc);
  e = ev_new ("steal", c->idx);
  e->a = ctx;
  ev_reply (e, m);
  if (m) dbus_message_unref (m);
}

static void
on_notify (DBusPendingCall *pc, void *data)
{
  Call *c = data;
  Ev *e = ev_new ("notify", c->idx);
  e->a = (pc == c->pc);
  if (atomic_load (&c->notify_steal) == 1)
    do_steal (c, 1);
}

static void
do_set_notify (Call *c, int steal)
{
  Ev *e;
  int done;
  atomic_store (&c->notify_steal, steal ? 1 : 2);
  if (!dbus_pending_call_set_notify (c->pc, on_notify, c, NULL)) exit (3);
  done = dbus_pending_call_get_completed (c->pc);
  e = ev_new ("nset", c->idx);
  e->a = done; e->b = steal;
}

static DBusMessage *
new_call (int idx)
{
  DBusMessage *m = dbus_message_new_method_call (NULL, "/t", "com.example.T", "M");
  dbus_uint32_t v = (dbus_uint32_t) idx;
  if (m == NULL || !dbus_message_append_args (m, DBUS_TYPE_UINT32, &v, DBUS_TYPE_INVALID)) exit (3);
  return m;
}

static Call *
wait_call (int idx, char code)
{
  Call *c = &calls[idx];
  long spins = 0;
  while (atomic_load (&c->state) == ST_EMPTY && spins++ < 200000)
    usleep (50);
  if (atomic_load (&c->state) != ST_LIVE)
    {
      Ev *e = ev_new ("skip", idx);
      e->a = code; e->b = atomic_load (&c->state);
      return NULL;
    }
  return c;
}

static void
blk_enter (Call *c)
{
  atomic_store (&c->blk_tid, my_tid);
  atomic_store (&c->blk_beg_us, now_us ());
  atomic_store (&c->blk, 1);
}

static void
blk_leave (Call *c)
{
  long long now = now_us (), none = 0;
  atomic_store (&c->blk_end_us, now);
  atomic_store (&c->blk, 2);
  atomic_compare_exchange_strong (&first_return_us, &none, now);
}

/* Is there a blocking wait that has been going on for span_us, counted from the later of its own start and the first
 * return of the case?  (A thread that is merely late to start its wait is not what the watch is about.) */
static int
blocked_since (long long first, long long span_us)
{
  int i;
  long long now = now_us ();
  for (i = 0; i < cur_ncalls; i++)
    if (atomic_load (&calls[i].blk) == 1)
      {
        long long beg = atomic_load (&calls[i].blk_beg_us);
        if (now - (beg > first ? beg : first) >= span_us) return 1;
      }
  return 0;
}

/* Multi-blocker watch expired: say which blocking waits have not returned and wait to be killed.  Nothing here touches
 * the event log (threads stuck inside libdbus may have written to it without any ordering we could rely on); only the
 * per-call atomics are read. */
static void
report_stuck (long watch_ms, long polls)
{
  int i, first = 1;
  long long now = now_us ();
  printf ("{\"mb_stuck\":1,\"watch_ms\":%ld,\"polls\":%ld,\"t0_us\":%lld,\"first_return_us\":%lld,\"now_us\":%lld,\"threads_done\":%d,\"nthreads\":%d,\"blockers\":[",
          watch_ms, polls, t0_us, atomic_load (&first_return_us) - t0_us, now - t0_us, atomic_load (&n_threads_done), cur_nthreads);
  for (i = 0; i < cur_ncalls; i++)
    {
      Call *c = &calls[i];
      int b = atomic_load (&c->blk), done = -1;
      if (b == 0) continue;
      if (atomic_load (&c->state) == ST_LIVE && c->pc != NULL)
        done = dbus_pending_call_get_completed (c->pc);
      printf ("%s{\"c\":%d,\"tid\":%d,\"timeout\":%d,\"blk\":%d,\"beg_us\":%lld,\"end_us\":%lld,\"completed\":%d}",
              first ? "" : ",", i, atomic_load (&c->blk_tid), c->timeout_ms, b, atomic_load (&c->blk_beg_us) - t0_us,
              b == 2 ? atomic_load (&c->blk_end_us) - t0_us : -1LL, done);
      first = 0;
    }
  fputs ("]}\n", stdout);
  fflush (stdout);
  /* the Python side kills us (after taking the stacks); do not stay around for ever if it is gone */
  sleep (90);
  _exit (0);
}

static void
exec_op (const Op *o)
{
  Ev *e;
  Call *c;
  switch (o->code)
    {
    case 'S':
      {
        DBusMessage *m = new_call ((int) o->a);
        DBusPendingCall *pc = NULL;
        dbus_bool_t ok;
        long t_before = (long) (now_us () - t0_us);
        c = &calls[o->a];
        ok = dbus_connection_send_with_reply (conn, m, &pc, (int) o->b);
        c->serial = dbus_message_get_serial (m);
        c->timeout_ms = (int) o->b;
        c->pc = pc;
        e = ev_new ("sent", c->idx);
        e->a = c->serial; e->b = o->b; e->rtype = ok ? (pc != NULL) : -2;
        e->m[0] = t_before; e->nm = 1;
        dbus_message_unref (m);
        if (pc != NULL && o->c)
          do_set_notify (c, o->c == 1);
        atomic_store (&c->state, pc ? ST_LIVE : ST_VOID);
        break;
      }
    case 'N':
      if ((c = wait_call ((int) o->a, 'N')) != NULL) do_set_notify (c, (int) o->b);
      break;
    case 'X':
      if ((c = wait_call ((int) o->a, 'X')) != NULL && !atomic_exchange (&c->cancelled, 1))
        {
          ev_new ("xbeg", c->idx);
          dbus_pending_call_cancel (c->pc);
          {
            int done = dbus_pending_call_get_completed (c->pc);
            e = ev_new ("xend", c->idx);
            e->a = done;
          }
        }
      break;
    case 'B':
      if ((c = wait_call ((int) o->a, 'B')) != NULL)
        {
          ev_new ("bbeg", c->idx);
          blk_enter (c);
          dbus_pending_call_block (c->pc);
          blk_leave (c);
          e = ev_new ("bend", c->idx);
          e->a = dbus_pending_call_get_completed (c->pc);
        }
      break;
    case 'G':
      if ((c = wait_call ((int) o->a, 'G')) != NULL)
        {
          int done = dbus_pending_call_get_completed (c->pc);
          e = ev_new ("poll", c->idx);
          e->a = done;
        }
      break;
    case 'T':
      if ((c = wait_call ((int) o->a, 'T')) != NULL && dbus_pending_call_get_completed (c->pc))
        do_steal (c, 0);
      break;
    case 'W':
      {
        DBusMessage *m = new_call ((int) o->a), *r;
        DBusError err;
        dbus_error_init (&err);
        e = ev_new ("wbeg", (int) o->a);
        e->b = o->b;
        calls[o->a].timeout_ms = (int) o->b;
        blk_enter (&calls[o->a]);
        r = dbus_connection_send_with_reply_and_block (conn, m, (int) o->b, &err);
        blk_leave (&calls[o->a]);
        e = ev_new ("wend", (int) o->a);
        e->a = dbus_message_get_serial (m);
        e->b = o->b;
        ev_reply (e, r);
        if (r == NULL && dbus_error_is_set (&err))
          { strncpy (e->name, err.name, sizeof e->name - 1); e->name[sizeof e->name - 1] = 0; }
        if (r) dbus_message_unref (r);
        if (dbus_error_is_set (&err)) dbus_error_free (&err);
        dbus_message_unref (m);
        calls[o->a].serial = (unsigned) e->a;
        atomic_store (&calls[o->a].state, ST_VOID);
        break;
      }
    case 'P':
      {
        dbus_bool_t r = dbus_connection_read_write_dispatch (conn, (int) o->a);
        int f = timer_gate ? 0 : tm_fire_due ();   /* gated: fired by thread_main after the shared gate is dropped */
        e = ev_new ("pump", -1);
        e->a = r; e->b = f;
        break;
      }
    case 'R':
      {
        dbus_bool_t r = dbus_connection_read_write (conn, (int) o->a);
        e = ev_new ("read", -1);
        e->a = r;
        break;
      }
    case 'D':
      {
        DBusDispatchStatus s = dbus_connection_dispatch (conn);
        e = ev_new ("disp", -1);
        e->a = s;
        break;
      }
    case 'F':
      {
        int f = gated_fire ();
        e = ev_new ("fire", -1);
        e->a = f;
        break;
      }
    case 'Z':
      usleep ((useconds_t) o->a);
      break;
    case 'A':
      {
        long spins = 0;
        int i, n;
        for (;;)
          {
            for (i = 0, n = 0; i < cur_ncalls; i++)
              if (atomic_load (&calls[i].state) != ST_EMPTY) n++;
            if (n >= o->a && (!o->b || dbus_connection_get_dispatch_status (conn) == DBUS_DISPATCH_DATA_REMAINS)) break;
            if (spins++ > 200000) { e = ev_new ("skip", -1); e->a = 'A'; e->b = n; break; }
            usleep (50);
          }
        break;
      }
    case 'M':
      {
        /* move the connection to the next main-loop context.  a: 0 same callback functions, 1 the other set of
         * functions, 2 functions set to NULL first (b us without a main loop), then the same set again.
         * Invariant checked on the spot: every timeout that was registered in the old context is afterwards
         * registered exactly once in the new one and nowhere else. */
        DBusTimeout *snap[MAX_TIMEOUTS];
        int n_snap = 0, i, old = atomic_load (&cur_ctx), nw, lost = 0, stale = 0, dup = 0, null_left = 0;
        dbus_bool_t ok = TRUE;
        pthread_mutex_lock (&tm_mu);
        for (i = 0; i < MAX_TIMEOUTS; i++)
          if (tslots[i].t != NULL && tslots[i].ctx == old) snap[n_snap++] = tslots[i].t;
        pthread_mutex_unlock (&tm_mu);
        nw = (old + 1) % N_CTX;
        if (o->a == 2)
          {
            ok = tm_register (cur_alt, -1);
            for (i = 0; i < n_snap; i++)
              { int a, b; tm_where (snap[i], -1, &a, &b); null_left += b; }
            if (o->b > 0) usleep ((useconds_t) o->b);
            ok = tm_register (cur_alt, nw) && ok;
          }
        else
          ok = tm_register (o->a == 1 ? !cur_alt : cur_alt, nw);
        for (i = 0; i < n_snap; i++)
          {
            int a, b;
            tm_where (snap[i], nw, &a, &b);
            if (a == 0 && b == 0) lost++;
            if (b > 0) stale++;
            if (a > 1) dup++;
          }
        e = ev_new ("rereg", -1);
        e->a = o->a; e->b = n_snap; e->rtype = 0; e->rs = ok ? 1 : 0;
        e->m[0] = lost; e->m[1] = stale + null_left; e->m[2] = dup; e->nm = 3;
        break;
      }
    case 'C':
      {
        int fd = -1, hup = 0, avail = 0;
        short rev = 0;
        long long until = now_us () + o->a * 1000LL;
        if (dbus_connection_get_unix_fd (conn, &fd) && fd >= 0)
          {
            for (;;)
              {
                struct pollfd pfd;
                long long left = until - now_us ();
                pfd.fd = fd; pfd.events = POLLIN | POLLRDHUP; pfd.revents = 0;
                if (poll (&pfd, 1, left > 50000 ? 50 : (left > 0 ? (int) (left / 1000) : 0)) > 0)
                  {
                    rev = pfd.revents;
                    if (rev & (POLLRDHUP | POLLHUP | POLLERR)) { hup = 1; break; }
                    usleep (200);       /* data but no hangup yet: do not spin */
                  }
                if (now_us () >= until) break;
              }
            if (ioctl (fd, FIONREAD, &avail) != 0) avail = -1;
          }
        e = ev_new ("chk", -1);
        e->a = hup; e->b = avail; e->rtype = 0; e->m[0] = rev; e->nm = 1;
        break;
      }
    case 'J':
      {
        /* The deadline is in wall time AND in this thread's own progress (it must itself have been scheduled
         * watch_ms/4 times since the first return), so a stall of the whole process cannot expire it. */
        long polls = 0;
        for (;;)
          {
            long long first;
            if (atomic_load (&n_threads_done) >= cur_nthreads - 1) break;
            first = atomic_load (&first_return_us);
            if (first != 0)
              {
                polls++;
                if (now_us () - first >= o->a * 1000LL && polls >= o->a / 4
                    && atomic_load (&n_threads_done) < cur_nthreads - 1 && blocked_since (first, o->a * 1000LL))
                  report_stuck (o->a, polls);
              }
            usleep (2000);
          }
        break;
      }
    default:
      break;
    }
}

/* Timer gate (default on; VERIF_C17_TIMER_GATE=0 turns it off for exploration): dbus_timeout_handle is
 * only ever called while no other thread is inside a libdbus call (operations hold the gate shared,
 * timer firing takes it exclusively or is skipped), so that a DBusTimeout can never be handled
 * concurrently with libdbus removing it from another thread - the harness stays a valid API client by
 * construction. */
static pthread_rwlock_t gate = PTHREAD_RWLOCK_INITIALIZER;
static _Atomic int n_gate_skipped;

static int
gated_fire (void)
{
  int f;
  if (!timer_gate) return tm_fire_due ();
  if (pthread_rwlock_trywrlock (&gate) != 0) { atomic_fetch_add (&n_gate_skipped, 1); return 0; }
  f = tm_fire_due ();
  pthread_rwlock_unlock (&gate);
  return f;
}

static void *
thread_main (void *arg)
{
  int tid = (int) (intptr_t) arg, i;
  my_tid = tid;
  for (i = 0; i < n_ops; i++)
    if (ops[i].tid == tid)
      {
        if (timer_gate && ops[i].code != 'F' && ops[i].code != 'Z' && ops[i].code != 'J' && ops[i].code != 'C')
          {
            pthread_rwlock_rdlock (&gate);
            exec_op (&ops[i]);
            pthread_rwlock_unlock (&gate);
            if (ops[i].code == 'P') gated_fire ();
          }
        else
          exec_op (&ops[i]);
      }
  if (tid != 0) atomic_fetch_add (&n_threads_done, 1);
  return NULL;
}

static int
must_complete_pending (int n_calls, int disconnected)
{
  int i, n = 0;
  for (i = 0; i < n_calls; i++)
    {
      Call *c = &calls[i];
      if (atomic_load (&c->state) != ST_LIVE || atomic_load (&c->cancelled)) continue;
      if (!disconnected && !(c->timeout_ms >= 0 && c->timeout_ms < FINITE_LIMIT)) continue;
      if (!dbus_pending_call_get_completed (c->pc)) n++;
    }
  return n;
}

static int
parse_ops (char *s)
{
  char *save = NULL, *tok;
  n_ops = 0;
  for (tok = strtok_r (s, ";", &save); tok != NULL && n_ops < MAX_OPS; tok = strtok_r (NULL, ";", &save))
    {
      Op *o = &ops[n_ops];
      if (tok[0] < '0' || tok[0] >= '0' + MAX_THREADS || tok[1] == 0) return 0;
      o->tid = tok[0] - '0';
      o->code = tok[1];
      o->a = o->b = o->c = 0;
      sscanf (tok + 2, "%ld,%ld,%ld", &o->a, &o->b, &o->c);
      if (strchr ("SNXBGTW", o->code) && (o->a < 0 || o->a >= MAX_CALLS)) return 0;
      n_ops++;
    }
  return 1;
}

int main (int argc, char **argv)
{
  char *line;
  const char *addr = argc > 1 ? argv[1] : NULL;

  if (addr == NULL) { fprintf (stderr, "usage: h_pending <address>\n"); return 3; }
  setvbuf (stdout, NULL, _IOFBF, 1 << 16);
  if (!dbus_threads_init_default ()) return 3;
  timer_gate = !(getenv ("VERIF_C17_TIMER_GATE") != NULL && getenv ("VERIF_C17_TIMER_GATE")[0] == '0');

  while ((line = hc_readline ()) != NULL)
    {
      int nthreads = 1, n_calls = 0, min_run_ms = 0, drain_ms = 3000, off = 0, i, guard;
      pthread_t th[MAX_THREADS];
      DBusError err;
      int drain_timeout = 0, disconnected, left = 0, n, quiescent = 0, fin_done = 0;
      DBusPendingCall *fin = NULL;
      long long t_script_end;

      if (sscanf (line, "%d %d %d %d %n", &nthreads, &n_calls, &min_run_ms, &drain_ms, &off) < 4
          || nthreads < 1 || nthreads > MAX_THREADS || n_calls < 0 || n_calls > MAX_CALLS || !parse_ops (line + off))
        { printf ("{\"bad_input\":1}\n"); fflush (stdout); free (line); continue; }

      memset (calls, 0, sizeof calls);
      for (i = 0; i < MAX_CALLS; i++) calls[i].idx = i;
      memset (tslots, 0, sizeof tslots);
      atomic_store (&n_ev, 0);
      atomic_store (&phase, 0);
      atomic_store (&n_timer_fired, 0);
      atomic_store (&n_timer_lost, 0);
      atomic_store (&first_return_us, 0);
      atomic_store (&n_threads_done, 0);
      cur_nthreads = nthreads;
      cur_ncalls = n_calls;
      my_tid = 0;

      dbus_error_init (&err);
      conn = dbus_connection_open_private (addr, &err);
      if (conn == NULL)
        {
          printf ("{\"open_failed\":\"%s\"}\n", err.name);
          fflush (stdout);
          dbus_error_free (&err);
          free (line);
          continue;
        }
      dbus_connection_set_exit_on_disconnect (conn, FALSE);
      if (!tm_register (0, 0)) return 3;
      guard = 0;
      while (!dbus_connection_get_is_authenticated (conn) && dbus_connection_get_is_connected (conn) && guard++ < 2000)
        dbus_connection_read_write_dispatch (conn, 50);
      if (!dbus_connection_get_is_authenticated (conn))
        {
          printf ("{\"auth_failed\":1}\n");
          fflush (stdout);
          dbus_connection_close (conn);
          dbus_connection_unref (conn);
          free (line);
          continue;
        }

      t0_us = now_us ();
      for (i = 1; i < nthreads; i++)
        if (pthread_create (&th[i], NULL, thread_main, (void *) (intptr_t) i) != 0) return 3;
      thread_main ((void *) (intptr_t) 0);
      for (i = 1; i < nthreads; i++)
        pthread_join (th[i], NULL);
      my_tid = 0;
      t_script_end = now_us ();

      /* drain.  Logical barrier instead of a guessed waiting time: a final call "Fin" is sent; the peer
       * answers it only after everything its script scheduled has been written, and the stream is
       * ordered, so once Fin's reply has been dispatched every scripted reply has been dispatched too. */
      atomic_store (&phase, 1);
      if (dbus_connection_get_is_connected (conn))
        {
          DBusMessage *fm = dbus_message_new_method_call (NULL, "/fin", "com.example.T", "Fin");
          if (fm == NULL || !dbus_connection_send_with_reply (conn, fm, &fin, DBUS_TIMEOUT_INFINITE)) return 3;
          dbus_message_unref (fm);
        }
      fin_done = (fin == NULL);
      for (;;)
        {
          long long el = (now_us () - t_script_end) / 1000;
          dbus_bool_t more;
          if (!fin_done && dbus_pending_call_get_completed (fin)) fin_done = 1;
          disconnected = !dbus_connection_get_is_connected (conn);
          left = must_complete_pending (n_calls, disconnected);
          if (left == 0 && (fin_done || disconnected) && el >= min_run_ms) break;
          if ((now_us () - t_script_end) / 1000 >= drain_ms) { drain_timeout = 1; break; }
          more = dbus_connection_read_write_dispatch (conn, 5);
          tm_fire_due ();
          if (disconnected)
            {
              /* Every source of events is exhausted once the connection is lost, the Disconnected
               * signal has been dispatched (read_write_dispatch returns FALSE), the incoming queue is
               * empty and libdbus has no timeout registered with us: waiting longer cannot complete
               * anything.  This is a logical condition, not a watchdog. */
              if (!more && dbus_connection_get_dispatch_status (conn) == DBUS_DISPATCH_COMPLETE
                  && tm_count () == 0)
                {
                  left = must_complete_pending (n_calls, 1);
                  quiescent = 1;
                  break;
                }
              usleep (500);
            }
          else if (left > 0 && fin_done && tm_count_short () == 0
                   && dbus_connection_get_dispatch_status (conn) == DBUS_DISPATCH_COMPLETE)
            {
              /* Connected, the peer has written everything it ever will (barrier passed, stream is ordered),
               * nothing is queued, and libdbus has no short timeout registered with us any more: the calls
               * that still "must complete" have lost their timeout.  Logical condition, not a watchdog. */
              left = must_complete_pending (n_calls, 0);
              if (left > 0 && tm_count_short () == 0) { quiescent = 2; break; }
            }
        }
      /* whatever is still queued gets dispatched before the final look */
      guard = 0;
      while (dbus_connection_get_dispatch_status (conn) == DBUS_DISPATCH_DATA_REMAINS && guard++ < 10000)
        dbus_connection_dispatch (conn);
      disconnected = !dbus_connection_get_is_connected (conn);

      printf ("{\"t0_us\":%lld,\"timer_gate\":%d,\"fin\":%d,\"drain_timeout\":%d,\"quiescent\":%d,\"left\":%d,\"disconnected\":%d,\"timers_fired\":%ld,\"timer_remove_unknown\":%d,\"run_ms\":%ld,\"calls\":[",
              t0_us, timer_gate, fin_done, drain_timeout, quiescent, left, disconnected, (long) atomic_load (&n_timer_fired), atomic_load (&n_timer_lost),
              (long) ((now_us () - t0_us) / 1000));
      for (i = 0; i < n_calls; i++)
        {
          Call *c = &calls[i];
          int st = atomic_load (&c->state);
          int done = -1;
          if (st == ST_LIVE)
            {
              done = dbus_pending_call_get_completed (c->pc);
              if (done) do_steal (c, 2);
            }
          printf ("%s{\"c\":%d,\"state\":%d,\"serial\":%u,\"timeout\":%d,\"completed\":%d,\"cancelled\":%d}",
                  i ? "," : "", i, st, c->serial, c->timeout_ms, done, atomic_load (&c->cancelled));
        }
      fputs ("]", stdout);

      /* teardown */
      atomic_store (&phase, 2);
      dbus_connection_close (conn);
      guard = 0;
      while (dbus_connection_dispatch (conn) == DBUS_DISPATCH_DATA_REMAINS && guard++ < 10000) ;
      for (i = 0; i < n_calls; i++)
        if (atomic_load (&calls[i].state) == ST_LIVE)
          {
            Ev *e = ev_new ("end", i);
            e->a = dbus_pending_call_get_completed (calls[i].pc);
            dbus_pending_call_unref (calls[i].pc);
            calls[i].pc = NULL;
          }
      if (fin != NULL) dbus_pending_call_unref (fin);
      dbus_connection_unref (conn);
      conn = NULL;

      n = atomic_load (&n_ev);
      printf (",\"ev_overflow\":%d,\"events\":[", n > MAX_EV ? n - MAX_EV : 0);
      if (n > MAX_EV) n = MAX_EV;
      for (i = 0; i < n; i++)
        {
          Ev *e = &evs[i];
          int j;
          printf ("%s{\"s\":%d,\"k\":\"%s\",\"t\":%d,\"c\":%d,\"ph\":%d,\"a\":%ld,\"b\":%ld,\"us\":%ld",
                  i ? "," : "", i, e->k, e->tid, e->call, e->phase, e->a, e->b, e->t_us);
          if (e->rtype != -1)
            {
              printf (",\"rt\":%d,\"rs\":%u,\"name\":\"%s\",\"m\":[", e->rtype, e->rs, e->name);
              for (j = 0; j < e->nm; j++) printf ("%s%ld", j ? "," : "", e->m[j]);
              putchar (']');
            }
          putchar ('}');
        }
      fputs ("]}\n", stdout);
      fflush (stdout);
      free (line);
    }
  dbus_shutdown ();
  return 0;
}
