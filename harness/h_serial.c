/* C17 (serial part): executor for "message serials assigned by a connection are non-zero and, until the 32-bit
 * counter wraps, distinct" and "a reply is never paired with a different call" around the wrap of the counter.
 *
 * usage: h_serial <peer address>; one case per stdin line:
 *     <start serial> <nthreads> <prog of thread 0> [<prog of thread 1> ...]
 * A prog is a string of op letters, each sending ONE message whose member name and first body value (uint32
 * token = tid * 1000 + index) identify it:
 *   s  signal through dbus_connection_send (serial taken from the out parameter)
 *   n  signal through dbus_connection_send with a NULL out parameter
 *   p  signal through dbus_connection_preallocate_send / dbus_connection_send_preallocated
 *   r  method return (REPLY_SERIAL 7) through dbus_connection_send
 *   c  method call through dbus_connection_send_with_reply (reply collected after the threads have ended)
 *   b  method call through dbus_connection_send_with_reply_and_block
 *   f  dbus_connection_flush (sends nothing)
 * Hook H4 (_dbus_verif_connection_set_next_serial) puts the connection's counter at <start> first.  The peer answers
 * every call with a method return whose body repeats the call's token.  All judgement happens in Python, over what
 * this program prints and what the peer received.  */
#include "hcommon.h"
#include <pthread.h>
#include <stdatomic.h>
#include <time.h>

#define MAX_THREADS 4
#define MAX_PROG 64

void _dbus_verif_connection_set_next_serial (DBusConnection *connection, dbus_uint32_t serial);

typedef struct
{
  char op;
  int sent;                 /* the send call reported success */
  dbus_uint32_t ret_serial; /* what the API told the caller (0: not told) */
  dbus_uint32_t msg_serial; /* dbus_message_get_serial() after the send call */
  DBusPendingCall *pc;
  int rtype;                /* reply type, -1 none */
  dbus_uint32_t rs;         /* REPLY_SERIAL of the reply */
  long rtoken;              /* first uint32 of the reply's body, -1 none */
  char rname[96];
} Rec;

static DBusConnection *conn;
static char progs[MAX_THREADS][MAX_PROG + 1];
static Rec recs[MAX_THREADS][MAX_PROG];
static pthread_barrier_t bar;

static char *
hs_readline (void)
{
  size_t cap = 256, n = 0;
  char *b = malloc (cap);
  int ch;
  while ((ch = getchar ()) != EOF && ch != '\n')
    {
      if (n + 2 > cap) { cap *= 2; b = realloc (b, cap); }
      b[n++] = (char) ch;
    }
  if (ch == EOF && n == 0) { free (b); return NULL; }
  b[n] = 0;
  return b;
}

static void
take_reply (Rec *r, DBusMessage *m)
{
  DBusMessageIter it;
  const char *en;
  r->rtype = dbus_message_get_type (m);
  r->rs = dbus_message_get_reply_serial (m);
  en = dbus_message_get_error_name (m);
  if (en != NULL) { strncpy (r->rname, en, sizeof r->rname - 1); r->rname[sizeof r->rname - 1] = 0; }
  if (dbus_message_iter_init (m, &it) && dbus_message_iter_get_arg_type (&it) == DBUS_TYPE_UINT32)
    {
      dbus_uint32_t v;
      dbus_message_iter_get_basic (&it, &v);
      r->rtoken = (long) v;
    }
}

static void *
thread_main (void *arg)
{
  int tid = (int) (intptr_t) arg, i;
  pthread_barrier_wait (&bar);
  for (i = 0; progs[tid][i] != 0; i++)
    {
      Rec *r = &recs[tid][i];
      char member[32];
      dbus_uint32_t token = (dbus_uint32_t) (tid * 1000 + i), ser = 0;
      DBusMessage *m = NULL;
      r->op = progs[tid][i];
      r->rtype = -1; r->rtoken = -1;
      snprintf (member, sizeof member, "T%dx%d", tid, i);
      switch (r->op)
        {
        case 's': case 'n': case 'p':
          m = dbus_message_new_signal ("/verif/serial", "com.example.Serial", member);
          break;
        case 'r':
          m = dbus_message_new (DBUS_MESSAGE_TYPE_METHOD_RETURN);
          if (m != NULL && !dbus_message_set_reply_serial (m, 7)) { dbus_message_unref (m); m = NULL; }
          break;
        case 'c': case 'b':
          m = dbus_message_new_method_call (NULL, "/verif/serial", "com.example.Serial", member);
          break;
        case 'f':
          dbus_connection_flush (conn);
          continue;
        default:
          continue;
        }
      if (m == NULL || !dbus_message_append_args (m, DBUS_TYPE_UINT32, &token, DBUS_TYPE_INVALID)) abort ();
      switch (r->op)
        {
        case 's': case 'r':
          r->sent = dbus_connection_send (conn, m, &ser);
          r->ret_serial = ser;
          break;
        case 'n':
          r->sent = dbus_connection_send (conn, m, NULL);
          break;
        case 'p':
          {
            DBusPreallocatedSend *pre = dbus_connection_preallocate_send (conn);
            if (pre == NULL) abort ();
            dbus_connection_send_preallocated (conn, pre, m, &ser);
            r->sent = 1;
            r->ret_serial = ser;
            break;
          }
        case 'c':
          r->sent = dbus_connection_send_with_reply (conn, m, &r->pc, 120000);
          break;
        case 'b':
          {
            DBusError err;
            DBusMessage *rep;
            dbus_error_init (&err);
            rep = dbus_connection_send_with_reply_and_block (conn, m, 120000, &err);
            r->sent = 1;
            if (rep != NULL) { take_reply (r, rep); dbus_message_unref (rep); }
            else
              {
                r->rtype = DBUS_MESSAGE_TYPE_ERROR;
                strncpy (r->rname, err.name ? err.name : "?", sizeof r->rname - 1);
                r->rname[sizeof r->rname - 1] = 0;
              }
            if (dbus_error_is_set (&err)) dbus_error_free (&err);
            break;
          }
        }
      r->msg_serial = dbus_message_get_serial (m);
      dbus_message_unref (m);
    }
  return NULL;
}

static long long
now_ms (void)
{
  struct timespec ts;
  clock_gettime (CLOCK_MONOTONIC, &ts);
  return ts.tv_sec * 1000LL + ts.tv_nsec / 1000000;
}

int main (int argc, char **argv)
{
  char *line;
  const char *addr = argc > 1 ? argv[1] : NULL;
  if (addr == NULL) { fprintf (stderr, "usage: h_serial <address>\n"); return 3; }
  setvbuf (stdout, NULL, _IOFBF, 1 << 16);
  if (!dbus_threads_init_default ()) return 3;

  while ((line = hs_readline ()) != NULL)
    {
      unsigned long start = 0;
      int nthreads = 0, off = 0, i, t, guard, left, drained = 1;
      pthread_t th[MAX_THREADS];
      DBusError err;
      char *p;
      long long until;

      memset (progs, 0, sizeof progs);
      memset (recs, 0, sizeof recs);
      if (sscanf (line, "%lu %d %n", &start, &nthreads, &off) < 2 || nthreads < 1 || nthreads > MAX_THREADS
          || start == 0 || start > 0xFFFFFFFFul)
        { printf ("{\"bad_input\":1}\n"); fflush (stdout); free (line); continue; }
      p = line + off;
      for (t = 0; t < nthreads; t++)
        {
          int n = 0;
          while (*p == ' ') p++;
          while (*p != 0 && *p != ' ' && n < MAX_PROG) progs[t][n++] = *p++;
          while (*p != 0 && *p != ' ') p++;
        }

      dbus_error_init (&err);
      conn = dbus_connection_open_private (addr, &err);
      if (conn == NULL)
        { printf ("{\"open_failed\":\"%s\"}\n", err.name); fflush (stdout); dbus_error_free (&err); free (line); continue; }
      dbus_connection_set_exit_on_disconnect (conn, FALSE);
      guard = 0;
      while (!dbus_connection_get_is_authenticated (conn) && dbus_connection_get_is_connected (conn) && guard++ < 2000)
        dbus_connection_read_write_dispatch (conn, 50);
      if (!dbus_connection_get_is_authenticated (conn))
        {
          printf ("{\"auth_failed\":1}\n"); fflush (stdout);
          dbus_connection_close (conn); dbus_connection_unref (conn); free (line); continue;
        }
      _dbus_verif_connection_set_next_serial (conn, (dbus_uint32_t) start);

      pthread_barrier_init (&bar, NULL, (unsigned) nthreads);
      for (t = 1; t < nthreads; t++)
        if (pthread_create (&th[t], NULL, thread_main, (void *) (intptr_t) t) != 0) return 3;
      thread_main ((void *) (intptr_t) 0);
      for (t = 1; t < nthreads; t++) pthread_join (th[t], NULL);
      pthread_barrier_destroy (&bar);

      /* collect the replies of the 'c' calls: the peer answers every call, so this ends; 20 s is a watchdog */
      until = now_ms () + 20000;
      for (;;)
        {
          left = 0;
          for (t = 0; t < nthreads; t++)
            for (i = 0; i < MAX_PROG; i++)
              if (recs[t][i].pc != NULL && !dbus_pending_call_get_completed (recs[t][i].pc)) left++;
          if (left == 0 || !dbus_connection_get_is_connected (conn)) break;
          if (now_ms () > until) { drained = 0; break; }
          dbus_connection_read_write_dispatch (conn, 20);
        }
      dbus_connection_flush (conn);
      for (t = 0; t < nthreads; t++)
        for (i = 0; i < MAX_PROG; i++)
          {
            Rec *r = &recs[t][i];
            if (r->pc == NULL) continue;
            if (dbus_pending_call_get_completed (r->pc))
              {
                DBusMessage *rep = dbus_pending_call_steal_reply (r->pc);
                if (rep != NULL) { take_reply (r, rep); dbus_message_unref (rep); }
              }
            dbus_pending_call_unref (r->pc);
            r->pc = NULL;
          }

      printf ("{\"start\":%lu,\"nthreads\":%d,\"drained\":%d,\"connected\":%d,\"ops\":[", start, nthreads, drained,
              (int) dbus_connection_get_is_connected (conn));
      {
        int first = 1;
        for (t = 0; t < nthreads; t++)
          for (i = 0; progs[t][i] != 0; i++)
            {
              Rec *r = &recs[t][i];
              if (r->op == 0) continue;
              printf ("%s{\"t\":%d,\"i\":%d,\"op\":\"%c\",\"sent\":%d,\"ret\":%u,\"msg\":%u,\"rt\":%d,\"rs\":%u,\"rtok\":%ld,\"rname\":\"%s\"}",
                      first ? "" : ",", t, i, r->op, r->sent, r->ret_serial, r->msg_serial, r->rtype, r->rs, r->rtoken, r->rname);
              first = 0;
            }
      }
      fputs ("]}\n", stdout);
      fflush (stdout);
      dbus_connection_close (conn);
      guard = 0;
      while (dbus_connection_dispatch (conn) == DBUS_DISPATCH_DATA_REMAINS && guard++ < 10000) ;
      dbus_connection_unref (conn);
      conn = NULL;
      free (line);
    }
  dbus_shutdown ();
  return 0;
}
