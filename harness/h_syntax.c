/* C16 executor: evaluates every validity predicate on each input string.
 * stdin: one hex string per line ("-" = empty).  stdout: "<mask>" per line:
 *  bit 0 _dbus_validate_bus_name      bit 8  dbus_validate_bus_name
 *  bit 1 _dbus_validate_interface     bit 9  dbus_validate_interface
 *  bit 2 _dbus_validate_member        bit 10 dbus_validate_member
 *  bit 3 _dbus_validate_error_name    bit 11 dbus_validate_error_name
 *  bit 4 _dbus_validate_path          bit 12 dbus_validate_path
 *  bit 5 _dbus_string_validate_utf8   bit 13 dbus_validate_utf8
 *  bit 6 _dbus_validate_signature_with_reason == VALID
 *                                     bit 14 dbus_signature_validate
 *  bit 7 (unused)                     bit 15 dbus_signature_validate_single
 *  bit 16 public wrappers were called (input has no NUL byte)
 */
#include "hcommon.h"
#include <dbus/dbus-internals.h>
#include <dbus/dbus-string.h>
#include <dbus/dbus-marshal-validate.h>

int main (void)
{
  char *line;
  setvbuf (stdout, NULL, _IOFBF, 1 << 16);
  while ((line = hc_readline ()) != NULL)
    {
      unsigned char *raw = NULL, *buf;
      long n = hc_unhex (line, &raw);
      unsigned mask = 0;
      DBusString str;
      if (n < 0) { printf ("-1\n"); free (line); continue; }
      /* libdbus only ever validates ranges that are followed by at least one more byte of the
       * same buffer (DBusString data is always NUL-terminated, and a marshalled signature is
       * followed by its NUL inside the message), and the signature validator peeks at that
       * byte; so give it exactly one byte of slack, not zero. */
      buf = malloc ((size_t) n + 1);
      memcpy (buf, raw, (size_t) n);
      buf[n] = 0;
      free (raw);
      _dbus_string_init_const_len (&str, (const char *) buf, (int) n);
      if (_dbus_validate_bus_name (&str, 0, (int) n)) mask |= 1u << 0;
      if (_dbus_validate_interface (&str, 0, (int) n)) mask |= 1u << 1;
      if (_dbus_validate_member (&str, 0, (int) n)) mask |= 1u << 2;
      if (_dbus_validate_error_name (&str, 0, (int) n)) mask |= 1u << 3;
      if (_dbus_validate_path (&str, 0, (int) n)) mask |= 1u << 4;
      if (_dbus_string_validate_utf8 (&str, 0, (int) n)) mask |= 1u << 5;
      if (_dbus_validate_signature_with_reason (&str, 0, (int) n) == DBUS_VALID) mask |= 1u << 6;
      if (memchr (buf, 0, (size_t) n) == NULL)
        {
          /* exactly-sized NUL-terminated copy for the public C-string API */
          char *c = malloc ((size_t) n + 1);
          memcpy (c, buf, (size_t) n);
          c[n] = 0;
          mask |= 1u << 16;
          if (dbus_validate_bus_name (c, NULL)) mask |= 1u << 8;
          if (dbus_validate_interface (c, NULL)) mask |= 1u << 9;
          if (dbus_validate_member (c, NULL)) mask |= 1u << 10;
          if (dbus_validate_error_name (c, NULL)) mask |= 1u << 11;
          if (dbus_validate_path (c, NULL)) mask |= 1u << 12;
          if (dbus_validate_utf8 (c, NULL)) mask |= 1u << 13;
          if (dbus_signature_validate (c, NULL)) mask |= 1u << 14;
          if (dbus_signature_validate_single (c, NULL)) mask |= 1u << 15;
          free (c);
        }
      {
        /* the same predicates on the same bytes EMBEDDED in a larger string (as when a header field of a
         * received message is validated in place): the verdict must not depend on the surroundings */
        static const char pre[] = "A.";
        static const char post[] = ".B:/c.d";
        size_t pl = sizeof pre - 1, sl = sizeof post - 1;
        unsigned char *big = malloc (pl + (size_t) n + sl + 1);
        unsigned m2 = 0;
        DBusString bstr;
        memcpy (big, pre, pl);
        memcpy (big + pl, buf, (size_t) n);
        memcpy (big + pl + n, post, sl);
        big[pl + n + sl] = 0;
        _dbus_string_init_const_len (&bstr, (const char *) big, (int) (pl + n + sl));
        if (_dbus_validate_bus_name (&bstr, (int) pl, (int) n)) m2 |= 1u << 0;
        if (_dbus_validate_interface (&bstr, (int) pl, (int) n)) m2 |= 1u << 1;
        if (_dbus_validate_member (&bstr, (int) pl, (int) n)) m2 |= 1u << 2;
        if (_dbus_validate_error_name (&bstr, (int) pl, (int) n)) m2 |= 1u << 3;
        if (_dbus_validate_path (&bstr, (int) pl, (int) n)) m2 |= 1u << 4;
        if (_dbus_string_validate_utf8 (&bstr, (int) pl, (int) n)) m2 |= 1u << 5;
        if (_dbus_validate_signature_with_reason (&bstr, (int) pl, (int) n) == DBUS_VALID) m2 |= 1u << 6;
        if (m2 != (mask & 0x7fu)) mask |= 1u << 20;   /* embedded verdict differs */
        mask |= (m2 & 0x7fu) << 21;
        free (big);
      }
      printf ("%u\n", mask);
      free (buf);
      free (line);
    }
  fflush (stdout);
  dbus_shutdown ();
  return 0;
}
