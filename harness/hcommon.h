/* Shared helpers for the dumb C executors.  All judgement happens in Python. */
#ifndef VERIF_HCOMMON_H
#define VERIF_HCOMMON_H

#include <config.h>
#include <dbus/dbus.h>
#include <stdio.h>
#include <stdlib.h>
#include <string.h>
#include <unistd.h>
#include <stdint.h>
#include <inttypes.h>

static int hc_hexval (int c)
{
  if (c >= '0' && c <= '9') return c - '0';
  if (c >= 'a' && c <= 'f') return c - 'a' + 10;
  if (c >= 'A' && c <= 'F') return c - 'A' + 10;
  return -1;
}

/* decode hex into an exactly-sized malloc block (so over-reads hit a red zone);
 * "-" means empty.  returns length or -1 */
static long hc_unhex (const char *hex, unsigned char **out)
{
  size_t n = strlen (hex);
  size_t i;
  unsigned char *b;
  if (n == 1 && hex[0] == '-') { *out = malloc (1); return 0; }
  if (n % 2) return -1;
  b = malloc (n / 2 ? n / 2 : 1);
  for (i = 0; i < n / 2; i++)
    {
      int h = hc_hexval (hex[2 * i]), l = hc_hexval (hex[2 * i + 1]);
      if (h < 0 || l < 0) { free (b); return -1; }
      b[i] = (unsigned char) (h * 16 + l);
    }
  *out = b;
  return (long) (n / 2);
}

static void hc_puthex (FILE *f, const void *p, size_t n)
{
  static const char d[] = "0123456789abcdef";
  const unsigned char *b = p;
  size_t i;
  fputc ('"', f);
  for (i = 0; i < n; i++) { fputc (d[b[i] >> 4], f); fputc (d[b[i] & 15], f); }
  fputc ('"', f);
}

static void hc_putstr_hex (FILE *f, const char *s)
{
  if (s == NULL) fputs ("null", f);
  else hc_puthex (f, s, strlen (s));
}

static int hc_fixed_size (int t)
{
  switch (t)
    {
    case DBUS_TYPE_BYTE: return 1;
    case DBUS_TYPE_INT16: case DBUS_TYPE_UINT16: return 2;
    case DBUS_TYPE_BOOLEAN: case DBUS_TYPE_INT32: case DBUS_TYPE_UINT32: return 4;
    case DBUS_TYPE_INT64: case DBUS_TYPE_UINT64: case DBUS_TYPE_DOUBLE: return 8;
    default: return 0;
    }
}

/* prints the value at iter (not advancing) in the canonical form of vf/wire.py:jval */
static void hc_dump_value (FILE *f, DBusMessageIter *it)
{
  int t = dbus_message_iter_get_arg_type (it);
  switch (t)
    {
    case DBUS_TYPE_BYTE: { unsigned char v; dbus_message_iter_get_basic (it, &v); fprintf (f, "[\"y\",%u]", v); break; }
    case DBUS_TYPE_BOOLEAN: { dbus_bool_t v; dbus_message_iter_get_basic (it, &v); fprintf (f, "[\"b\",%u]", (unsigned) v); break; }
    case DBUS_TYPE_INT16: { dbus_int16_t v; dbus_message_iter_get_basic (it, &v); fprintf (f, "[\"n\",%u]", (unsigned) (dbus_uint16_t) v); break; }
    case DBUS_TYPE_UINT16: { dbus_uint16_t v; dbus_message_iter_get_basic (it, &v); fprintf (f, "[\"q\",%u]", (unsigned) v); break; }
    case DBUS_TYPE_INT32: { dbus_int32_t v; dbus_message_iter_get_basic (it, &v); fprintf (f, "[\"i\",%" PRIu32 "]", (uint32_t) v); break; }
    case DBUS_TYPE_UINT32: { dbus_uint32_t v; dbus_message_iter_get_basic (it, &v); fprintf (f, "[\"u\",%" PRIu32 "]", (uint32_t) v); break; }
    case DBUS_TYPE_INT64: { dbus_int64_t v; dbus_message_iter_get_basic (it, &v); fprintf (f, "[\"x\",%" PRIu64 "]", (uint64_t) v); break; }
    case DBUS_TYPE_UINT64: { dbus_uint64_t v; dbus_message_iter_get_basic (it, &v); fprintf (f, "[\"t\",%" PRIu64 "]", (uint64_t) v); break; }
    case DBUS_TYPE_DOUBLE: { uint64_t v; dbus_message_iter_get_basic (it, &v); fprintf (f, "[\"d\",%" PRIu64 "]", v); break; }
    case DBUS_TYPE_UNIX_FD:
      { int fd = -1; dbus_message_iter_get_basic (it, &fd); fprintf (f, "[\"h\",%d]", fd >= 0 ? 1 : 0); if (fd >= 0) close (fd); break; }
    case DBUS_TYPE_STRING: case DBUS_TYPE_OBJECT_PATH: case DBUS_TYPE_SIGNATURE:
      { const char *s = NULL; dbus_message_iter_get_basic (it, &s); fprintf (f, "[\"%c\",", t); hc_putstr_hex (f, s); fputc (']', f); break; }
    case DBUS_TYPE_ARRAY:
      {
        DBusMessageIter sub;
        char *sig;
        int first = 1, et, n_walk = 0, n_count;
        dbus_message_iter_recurse (it, &sub);
        sig = dbus_message_iter_get_signature (it);
        et = dbus_message_iter_get_element_type (it);
        n_count = dbus_message_iter_get_element_count (it);
        fprintf (f, "[\"a\",\"%s\",[", sig ? sig + 1 : "?");
        dbus_free (sig);
        while (dbus_message_iter_get_arg_type (&sub) != DBUS_TYPE_INVALID)
          {
            if (!first) fputc (',', f);
            first = 0;
            hc_dump_value (f, &sub);
            n_walk++;
            dbus_message_iter_next (&sub);
          }
        fprintf (f, "],%d", n_count);
        if (hc_fixed_size (et))
          {
            DBusMessageIter sub2;
            const void *p = NULL; int n = -1;
            dbus_message_iter_recurse (it, &sub2);
            dbus_message_iter_get_fixed_array (&sub2, &p, &n);
            fputc (',', f);
            if (n > 0 && p != NULL) hc_puthex (f, p, (size_t) n * hc_fixed_size (et)); else fputs ("\"\"", f);
            fprintf (f, ",%d", n);
          }
        fputc (']', f);
        break;
      }
    case DBUS_TYPE_STRUCT: case DBUS_TYPE_DICT_ENTRY:
      {
        DBusMessageIter sub;
        int first = 1;
        dbus_message_iter_recurse (it, &sub);
        fprintf (f, "[\"%c\",[", t);
        while (dbus_message_iter_get_arg_type (&sub) != DBUS_TYPE_INVALID)
          {
            if (!first) fputc (',', f);
            first = 0;
            hc_dump_value (f, &sub);
            dbus_message_iter_next (&sub);
          }
        fputs ("]]", f);
        break;
      }
    case DBUS_TYPE_VARIANT:
      {
        DBusMessageIter sub;
        char *sig;
        dbus_message_iter_recurse (it, &sub);
        sig = dbus_message_iter_get_signature (&sub);
        fprintf (f, "[\"v\",\"%s\",", sig ? sig : "?");
        dbus_free (sig);
        hc_dump_value (f, &sub);
        fputc (']', f);
        break;
      }
    default:
      fprintf (f, "[\"?\",%d]", t);
    }
}

static void hc_dump_message (FILE *f, DBusMessage *m, int with_bytes)
{
  DBusMessageIter it;
  int first = 1;
  fprintf (f, "{\"type\":%d,\"serial\":%u,\"reply_serial\":%u,\"no_reply\":%d,\"auto_start\":%d,\"interactive\":%d,",
           dbus_message_get_type (m), (unsigned) dbus_message_get_serial (m),
           (unsigned) dbus_message_get_reply_serial (m),
           (int) dbus_message_get_no_reply (m), (int) dbus_message_get_auto_start (m),
           (int) dbus_message_get_allow_interactive_authorization (m));
  fputs ("\"path\":", f); hc_putstr_hex (f, dbus_message_get_path (m));
  fputs (",\"interface\":", f); hc_putstr_hex (f, dbus_message_get_interface (m));
  fputs (",\"member\":", f); hc_putstr_hex (f, dbus_message_get_member (m));
  fputs (",\"error_name\":", f); hc_putstr_hex (f, dbus_message_get_error_name (m));
  fputs (",\"destination\":", f); hc_putstr_hex (f, dbus_message_get_destination (m));
  fputs (",\"sender\":", f); hc_putstr_hex (f, dbus_message_get_sender (m));
  fputs (",\"container_instance\":", f); hc_putstr_hex (f, dbus_message_get_container_instance (m));
  fputs (",\"signature\":", f); hc_putstr_hex (f, dbus_message_get_signature (m));
  fprintf (f, ",\"contains_fds\":%d", (int) dbus_message_contains_unix_fds (m));
  fputs (",\"body\":[", f);
  if (dbus_message_iter_init (m, &it))
    {
      while (dbus_message_iter_get_arg_type (&it) != DBUS_TYPE_INVALID)
        {
          if (!first) fputc (',', f);
          first = 0;
          hc_dump_value (f, &it);
          dbus_message_iter_next (&it);
        }
    }
  fputc (']', f);
  if (with_bytes)
    {
      char *buf = NULL; int len = 0;
      fputs (",\"bytes\":", f);
      if (dbus_message_get_serial (m) != 0 && dbus_message_marshal (m, &buf, &len))
        { hc_puthex (f, buf, (size_t) len); dbus_free (buf); }
      else fputs ("null", f);
    }
  fputc ('}', f);
}

/* read one line of arbitrary length from stdin; returns malloc'd string without newline or NULL */
static char *hc_readline (void)
{
  size_t cap = 160, n = 0;
  char *b = malloc (cap);
  int c;
  while ((c = getchar ()) != EOF)
    {
      if (c == '\n') { b[n] = 0; return b; }
      if (n + 2 > cap) { cap *= 2; b = realloc (b, cap); }
      b[n++] = (char) c;
    }
  if (n == 0) { free (b); return NULL; }
  b[n] = 0;
  return b;
}

#endif
