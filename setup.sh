#!/bin/sh
# Offline setup: nothing to install (python3 stdlib + gcc + cmake + ninja are in the image).
# Pre-builds the ASan flavor so that the first check does not pay for the cold build.
cd "$(dirname "$0")"
mkdir -p evidence out
python3 vf/build.py asan
