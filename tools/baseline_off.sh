#!/bin/sh
# Repository's own suite with the verification guard OFF (the pinned configuration in /repo/_build
# never defines FREEDESKTOP_DBUS_VERIF): rebuild, then run ctest as the baseline does.
set -e
cmake --build /repo/_build -j16
ctest --test-dir /repo/_build -j8 --timeout 900 --output-junit /tmp/verif-baseline-junit.xml
