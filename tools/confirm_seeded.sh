#!/bin/bash
# Confirm a seeded change independently:  tools/confirm_seeded.sh <dir with patch.diff, run_demo.sh, demo.*> [--no-ctest]
#  1. fresh scratch worktree of /repo HEAD, pinned-style build (cmake RelWithDebInfo, tests on)
#  2. demo on the unmodified build        -> must exit 0
#  3. apply patch, rebuild                -> must compile
#  4. ctest on the modified build         -> all tests must pass
#  5. demo on the modified build          -> must exit non-zero
# Prints CONFIRMED / NOT-CONFIRMED with the reasons; removes the worktree and build afterwards.
set -u
d="$(readlink -f "$1")"; noctest="${2:-}"
wt="/tmp/cs-$$-$(basename "$d")"
git -C /repo worktree add -q --detach "$wt" HEAD || exit 2
trap 'git -C /repo worktree remove --force "$wt" 2>/dev/null' EXIT
mkdir -p "$wt/seeded"; cp -r "$d"/* "$wt/seeded/"; chmod +x "$wt/seeded/run_demo.sh" 2>/dev/null
cd "$wt"
cfg() { cmake -G Ninja -S . -B _b -DCMAKE_BUILD_TYPE=RelWithDebInfo -DCMAKE_C_FLAGS=-Wno-error >/dev/null 2>&1 && cmake --build _b -j8 >/dev/null 2>&1; }
cfg || { echo "NOT-CONFIRMED $(basename "$d"): unmodified tree does not build"; exit 1; }
( cd "$wt" && timeout 600 seeded/run_demo.sh "$wt/_b" >/tmp/cs-$$-demo0.log 2>&1 ); r0=$?
git apply seeded/patch.diff || { echo "NOT-CONFIRMED $(basename "$d"): patch does not apply"; exit 1; }
cmake --build _b -j8 >/tmp/cs-$$-build.log 2>&1 || { echo "NOT-CONFIRMED $(basename "$d"): does not compile with the change"; tail -5 /tmp/cs-$$-build.log; exit 1; }
ct="skipped"
if [ "$noctest" != "--no-ctest" ]; then
  if ctest --test-dir _b -j8 --timeout 900 >/tmp/cs-$$-ctest.log 2>&1; then ct="pass"; else ct="FAIL"; fi
fi
( cd "$wt" && timeout 600 seeded/run_demo.sh "$wt/_b" >/tmp/cs-$$-demo1.log 2>&1 ); r1=$?
if [ "$r0" = 0 ] && [ "$r1" != 0 ] && [ "$ct" != "FAIL" ]; then
  echo "CONFIRMED $(basename "$d"): demo unmodified=exit $r0, modified=exit $r1, ctest=$ct ($(grep -o '[0-9]*% tests passed.*' /tmp/cs-$$-ctest.log 2>/dev/null | head -1))"
else
  echo "NOT-CONFIRMED $(basename "$d"): demo unmodified=exit $r0, modified=exit $r1, ctest=$ct"
  tail -3 /tmp/cs-$$-demo0.log; tail -3 /tmp/cs-$$-demo1.log; grep -i "failed" /tmp/cs-$$-ctest.log 2>/dev/null | head -5
fi
rm -f /tmp/cs-$$-*.log
