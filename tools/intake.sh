#!/bin/bash
# tools/intake.sh <scratch worktree> <id> <check> [<check>...]: copy a sub-agent's deliverables to seeded/<id>, confirm, run the checks
wt="$1"; id="$2"; shift 2
cd /verif
mkdir -p "seeded/$id" && cp -r "$wt"/seeded/* "seeded/$id/"
rm -rf "seeded/$id"/__pycache__ "seeded/$id"/*.o
tools/confirm_seeded.sh "seeded/$id" 2>&1 | tail -4
tools/try_mutant.sh "seeded/$id/patch.diff" quick "$@" 2>&1 | cut -c1-900
