#!/usr/bin/python3
"""Summarises out/margins.log: for every coverage requirement the smallest observed/required ratio over all runs."""
import collections, os, sys
HERE = os.path.dirname(os.path.dirname(os.path.abspath(__file__)))
worst = {}
runs = collections.Counter()
for ln in open(os.path.join(HERE, "out", "margins.log")):
    f = ln.split()
    if len(f) != 6:
        continue
    prop, tier, seed, c, obs, req = f[0], f[1], f[2], f[3], int(f[4]), int(f[5])
    k = (prop, tier, c)
    runs[k] += 1
    r = obs / float(req)
    if k not in worst or r < worst[k][0]:
        worst[k] = (r, obs, req, seed)
lim = float(sys.argv[1]) if len(sys.argv) > 1 else 1.6
for k, (r, obs, req, seed) in sorted(worst.items(), key=lambda kv: kv[1][0]):
    if r < lim:
        print("%-4s %-8s %-70s min ratio %.2f (%d / %d at seed %s, %d runs)" % (k[0], k[1], k[2][:70], r, obs, req, seed, runs[k]))
