#!/usr/bin/python3
"""Writes seeded/<id>/meta.json and seeded/INDEX.md from the table below (what I ran is recorded per entry)."""
import json
import os

HERE = os.path.dirname(os.path.dirname(os.path.abspath(__file__)))
CONFIRM = "tools/confirm_seeded.sh seeded/%s  -> CONFIRMED (builds; ctest 36/36 with the change; demo exit 0 without / exit 1 with)"
TRY = "tools/try_mutant.sh seeded/%s/patch.diff quick %s"

T = [
    # id, property, origin, what it is, needs, caught_by (check: keys), missed_first / strengthening
    ("C01-a", "C01", "sub-agent", "load_message compares UNIX_FDS with n_unix_fds_allocated instead of n_unix_fds",
     "fd-capable unix connection; UNIX_FDS header larger than the descriptors attached",
     {"C01": "C01:asan:heap-buffer-overflow:load_message", "C15": "C15:asan:heap-buffer-overflow:load_message"},
     "first missed by C01 (no descriptor-holding loader path): C01 gained the 'F' loader mode"),
    ("C02-a", "C02", "sub-agent", "byteswap skips the alignment padding after an empty array",
     "non-native byte order + empty array of 8-aligned elements at an offset = 0 mod 8 + a following value of alignment <= 4",
     {"C02": "C02:asan:* in byteswap_body_helper / swap-* keys"}, ""),
    ("C03-a", "C03", "sub-agent", "unique-name counter rolled back when Hello fails, although the connection may stay registered",
     "allocation failure inside the Hello dispatch after bus_connection_complete; first client stays connected; second client says Hello",
     {"C14": "C14:invariant:two-connections-share-one-unique-name:?:hello"},
     "missed by C03 (cannot inject OOM) and first by C14: H1 gained the 'two connections share one unique name' invariant and C14's Hello case a second newcomer"),
    ("C04-a", "C04", "sub-agent", "queued waiter's flags refreshed only when the re-request carries REPLACE_EXISTING",
     "owner A, waiter B re-requests with a different ALLOW_REPLACEMENT bit, A leaves, C requests with REPLACE_EXISTING",
     {"C04": "C04:request-differs:* (and queue-flags through hook H1)"}, ""),
    ("C05-a", "C05", "sub-agent", "messages held for a pending activation are prepended instead of appended",
     "activatable name; >= 2 auto-start messages between the first one and the service's RequestName",
     {"C19": "C19:out-of-order:same-sender, C19:out-of-order:across-senders"},
     "not visible to C05 (its workload has no activation); activation ordering is C19's clause and C19 reports it"),
    ("C06-a", "C06", "sub-agent", "receive_sender rules compare with the primary owner only, ignoring queued owners",
     "policy with receive_sender=<name> deciding; a name with a queued owner; message sent by the queued owner",
     {"C06": "C06:decision-differs:receive:deny(receive_sender) ..."}, ""),
    ("C07-a", "C07", "sub-agent", "match_rule_equal ignores the kind flags of argN / argNpath / arg0namespace",
     "two twin rules differing only in the kind of arg match on one connection; RemoveMatch of the older; a broadcast that distinguishes them",
     {"C07": "C07:delivered-without-match:broadcast"},
     "first missed: C07 gained twin-rule generation (same keys/values, different kind) and removal biased to the oldest rule"),
    ("C08-a", "C08", "sub-agent", "cookie hash compared over the shorter length only ('constant-time' helper)",
     "DBUS_COOKIE_SHA1 allowed; response hash that is a proper prefix of the right digest",
     {"C08": "C08:ok-instead-of-rejected:cookie:hash-differs"}, ""),
    ("C09-a", "C09", "sub-agent", "expire list walk stops at the first item that is not due (breaks zeroed mid-list items)",
     "an older call still pending + a later call whose callee disconnects",
     {"C09": "C09:hang:noreply-after-callee-disconnect"}, ""),
    ("C10-a", "C10", "sub-agent", "bad hex in DATA resets the mechanism but not the state -> NULL mech dereference",
     "AUTH EXTERNAL without initial response, DATA <non-hex>, another DATA line (before authentication)",
     {"C08": "C08:ubsan:member-access-within-null-pointer...:handle_server_state_waiting_for_data",
      "C10": "C10:ubsan:...:handle_server_state_waiting_for_data, C10:stall:daemon-dead"},
     "first missed by C10: its pre-auth abuse gained themed SASL runs (mechanism opened without response followed by DATA variants)"),
    ("C11-a", "C11", "sub-agent", "transport reports DISPATCH_COMPLETE as soon as the loader is corrupted",
     "valid messages arriving in the same read as the bytes that expose an invalid message",
     {"C11": "C11:hs-messages-differ:*, C11:hs-unsplit-missing-messages"}, ""),
    ("C12-a", "C12", "sub-agent", "_dbus_header_remove_unknown_fields no longer invalidates the field cache",
     "message received from the wire; an unknown field (code > 10) placed before a known field; the known field read after stripping",
     {"C12": "C12:accessor-differs:<field>:strip-unknown", "C03": "C03:assert:dbus-marshal-basic.c:... (the daemon strips unknown fields of every message)"}, ""),
    ("C13-a", "C13", "sub-agent", "max_names_per_connection check skipped for DO_NOT_QUEUE requests on existing names",
     "connection at its name limit; another connection owns X with ALLOW_REPLACEMENT; RequestName(X, DO_NOT_QUEUE|REPLACE_EXISTING)",
     {"C13": "C13:invariant:n_services_owned-N-exceeds-max_names_per_connection (hook H1), C13:hang:*"}, ""),
    ("C15-a", "C15", "sub-agent", "load_message takes the descriptors out of the loader only after the fallible steps",
     "fd-carrying message + allocation failure at one of two points in load_message + the normal retry",
     {"C14": "C14:lib:loader:double-close, C14:lib:loader:fd-identity, C14:lib:loader:messages-differ"},
     "missed by C15 (no fault injection) and first by C14 (bus-level only): the library-level OOM part (checks/c14lib.py, harness/h_oom.c) was built, with descriptor identity, canary and fd-table checks"),
    ("C16-a", "C16", "sub-agent", "UTF-8 validator's ASCII fast path swallows a NUL that follows an ASCII byte",
     "length-carrying entry points only (internal predicate, message parsing); a NUL directly after an ASCII byte",
     {"C16": "C16:utf8:accepted-but-invalid:nul", "C01": "C01:accepted-but-invalid:string-embedded-nul"},
     "the author's notes also pointed at a pre-existing defect (mis-nested brackets a{s(ii}) accepted): generators for mis-nested signatures were added to C16/C01, which then reported it; repaired in /repo (8064dc2)"),
    ("C17-a", "C17", "sub-agent", "dispatch looks up pending calls only for METHOD_RETURN/ERROR while the timeout is still removed for any message with a matching REPLY_SERIAL",
     "main-loop driven completion; a signal or method call carrying REPLY_SERIAL of an outstanding call; the real reply never arrives",
     {"C17": "C17:never-completed:timeout-lost"},
     "first missed: the scripted peer gained SIGNAL / METHOD_CALL messages carrying the REPLY_SERIAL of an outstanding call, and the oracle a logical 'timeout lost' condition; this also surfaced a genuine deviation on the unchanged tree (a non-reply message with a matching REPLY_SERIAL completes the call: C17:completed-by-non-reply:*, recorded as known)"),
    ("C18-a", "C18", "sub-agent", "BecomeMonitor releases only names the connection owns as primary; queue entries are kept",
     "connection queued (not owner) for a name becomes a monitor; the owner later releases the name or disconnects",
     {"C18": "C18:invariant:a-monitor-is-in-the-queue-of-name-* (hook H1), C18:hang:*"}, ""),
    ("C19-a", "C19", "sub-agent", "try_send_activation_failure stops at the first waiter whose connection is gone",
     ">= 2 waiters on one pending activation; a waiter that is not last disconnects while pending; the activation fails",
     {"C19": "C19:waiter-without-error-after-failed-start:*, C19:hang:departure+*"},
     "first missed: C19 gained dedicated rounds in which waiters (never the last in arrival order) disconnect while the start is pending, with gated service stubs so that the disconnect is acknowledged by the bus before the start ends"),
    ("C20-a", "C20", "sub-agent", "a refused registration on an occupied path still overwrites the fallback flag of the existing registration",
     "register P; refused registration of P with the opposite fallback flag; call to a path strictly below P",
     {"C20": "C20:dispatch-order:*"}, ""),
    ("C01-b", "C01", "sub-agent (round 2)", "UTF-8 validator's ASCII fast path swallows a NUL following an ASCII byte (same idea as C16-a, found independently)",
     "hand-built message with a STRING containing a NUL directly after an ASCII byte",
     {"C01": "C01:accepted-but-invalid:string-embedded-nul", "C16": "C16:utf8:accepted-but-invalid:nul"}, ""),
    ("C02-b", "C02", "sub-agent (round 2)", "_dbus_header_update_lengths writes the body length in host order",
     "message in the non-host byte order locked/marshalled without any iterator access; non-empty body",
     {"C02": "C02:foreign-remarshal-differs, C02:swap-n2f-invalid:*", "C12": "C12:invalid-after-edit:*:start"}, ""),
    ("C03-b", "C03", "sub-agent (round 2)", "bus_dispatch skips header sanitising for messages addressed to org.freedesktop.DBus",
     "raw client placing unknown fields / CONTAINER_INSTANCE on a driver call + a monitor or eavesdrop=true matcher",
     {"C03": "C03:unknown-field-delivered:driver-call:to-monitor / :to-eavesdropper, C03:container-instance-delivered:*"},
     "first missed: C03 sessions gained eavesdropping clients and monitors whose every frame is inspected like any receiver's"),
    ("C04-b", "C04", "sub-agent (round 2)", "bus_service_swap_owner announces the last queue entry as the new owner",
     "owner allowing replacement + another waiter already queued + a third connection requesting with REPLACE_EXISTING",
     {"C04": "C04:request-differs:replace"}, ""),
    ("C05-b", "C05", "sub-agent (round 2)", "stamp generation bumped after the addressed recipient was marked: it is matched again by its own eavesdrop rule",
     "addressed recipient holding an eavesdrop=true rule matching the message; NO_REPLY call, unicast signal, return or error",
     {"C05": "C05:delivered-2-times:*:holding-eavesdrop-rule", "C07": "C07:delivered-2-times", "C18": "C18:shown-2-times:bus-signal:NameLost"},
     "first missed by C05 (caught by C07/C18): C05 recipients and bystanders now hold plain and eavesdrop rules; exactly-once is judged per connection"),
    ("C06-b", "C06", "sub-agent (round 2)", "send_interface rules made symmetric: allow rules naming an interface match messages without INTERFACE",
     "policy where an interface-qualified allow separates allowed from denied; a method call without INTERFACE field",
     {"C06": "C06:decision-differs:send:*"}, ""),
    ("C07-b", "C07", "sub-agent (round 2)", "rules naming a departing unique name are found by prefix comparison (strncmp)",
     "a rule naming ':1.1x' held by someone; connection ':1.1' holding a rule itself disconnects",
     {"C07": "C07:not-delivered:sender, C07:remove-match:2-replies"},
     "first missed: a quarter of the C07 scenarios now burn unique names so that live clients have prefix-related names, and leavers often hold a rule"),
    ("C08-b", "C08", "sub-agent (round 2)", "rejection counter reset in send_ok()",
     "handshake that obtains OK, sends CANCEL instead of BEGIN, and repeats between rejections",
     {"C08": "C08:unbounded-rejections"}, ""),
    ("C09-b", "C09", "sub-agent (round 2)", "bus_connections_check_reply no longer checks who sends the reply",
     "requested-replies-only policy; outstanding call A->B; third connection C sends a reply to A with that serial",
     {"C09": "C09:pending-list-differs:*, C09:call-refused:access-denied, C09:noreply-without-cause, ..."}, ""),
    ("C10-b", "C10", "sub-agent (round 2)", "auth_timeout no longer expires connections that authenticated but never said Hello",
     "max_incomplete_connections connections that complete AUTH+BEGIN and then stay silent past auth_timeout",
     {"C10": "C10:newcomer-starved"},
     "first missed: C10's incomplete-connection attack gained authenticated-silent and mixed variants"),
    ("C11-b", "C11", "sub-agent (round 2)", "loader's read-size hint rounds the remaining length of a partial fd-carrying message up to 8",
     "fd passing negotiated; message with fds whose length is not a multiple of 8 split over two reads; another fd-carrying message queued right behind",
     {"C11": "C11:daemon-fd:sender-disconnected:*"},
     "first missed (the loader harness ignores the hint, as the hint only matters with a real socket): C11 gained the daemon-level descriptor mode"),
    ("C12-b", "C12", "sub-agent (round 2)", "in-place fast path for replacing a string header field leaves the old tail in the alignment padding",
     "replacing an existing, non-last string field by a value >= 2 bytes shorter within the same 8-byte block",
     {"C12": "C12:invalid-after-edit:padding-not-nul:*", "C03": "C03:bus-sent-invalid-message:padding-not-nul (sender stamping forwards an invalid message)"}, ""),
    ("C13-b", "C13", "sub-agent (round 2)", "pending replies counted per (caller, recipient) pair",
     "caller at max_replies_per_connection calling a different recipient",
     {"C13": "C13:invariant:N-pending-replies-exceed-max_replies_per_connection (hook H1), C13:hang:barrier", "C09": "same invariant"}, ""),
    ("C14-b", "C14", "sub-agent (round 2)", "replacement_block_replace writes the array-length fixups before the last fallible step",
     "replacing a string header field by a longer value with the LAST allocation of the call failing",
     {"C14": "C14:lib:edit:assert-not-reached:..., C14:lib:edit:assert:dbus-string.c:..."}, ""),
    ("C15-b", "C15", "sub-agent (round 2)", "pending-fd timer re-armed whenever the pending count drops but stays above zero",
     "surplus descriptor (announce 1, attach 2) followed by well-formed fd messages at intervals shorter than pending_fd_timeout",
     {"C15": "C15:pending-timeout-not-enforced:surplus-with-traffic"},
     "first missed: C15 gained the surplus-then-steady-traffic history shape (bound t0 + 4T + 10 s, inconclusive first)"),
    ("C16-b", "C16", "sub-agent (round 2)", "interface validator looks for '.' in the whole DBusString instead of the given range",
     "predicate reached through message parsing (sub-range of the header buffer) with a one-element name followed by a '.' later in the header",
     {"C01": "C01:accepted-but-invalid:bad-interface-name:no-dot", "C16": "C16:interface:verdict-depends-on-surrounding-bytes"},
     "first missed by C16 (caught by C01): the C16 harness now also evaluates every predicate on the same bytes embedded in a larger string"),
    ("C17-b", "C17", "sub-agent (round 2)", "_dbus_connection_remove_pending_call returns early when the call's timeout is no longer registered",
     "cancel of a call with infinite timeout, or whose reply is queued but not dispatched, or whose timeout error is queued",
     {"C17": "C17:cancelled-call-notified, C17:completed-after-cancel"}, ""),
    ("C18-b", "C18", "sub-agent (round 2)", "monitor filter's destination= compared with org.freedesktop.DBus whenever there is no addressed recipient",
     "selective monitor filter with a destination= key + a message to a name without owner (or from a connection that has not said Hello)",
     {"C18": "see DESIGN 10.6"},
     "first missed: monitor filters gained the destination= key (unique, owned, ownerless names and the bus name)"),
    ("C19-b", "C19", "sub-agent (round 2)", "activation helper compares the declared Name with the requested one by prefix",
     "service file <N>.service whose Name= has N as a strict prefix",
     {"C19": "C19:helper-executed:file:name-mismatch"}, ""),
    ("C20-b", "C20", "sub-agent (round 2)", "find_subtree_recurse drops the 'deeper lookup failed and this node is a fallback' step",
     "fallback at P, a non-fallback node strictly below P, a call that passes through that node and leaves the tree",
     {"C20": "C20:dispatch-order:missing-handler"}, ""),
    ("C14-a", "C14", "sub-agent", "RemoveMatch removes first and re-adds on ack failure, ignoring a failing re-add",
     "two consecutive allocation failures during RemoveMatch of a held rule",
     {"C14": "C14:state-changed-but-NoMemory:removematch"},
     "first missed (single failures only): hook H2 and C14 gained bursts of consecutive failures and pairs (k1,k2)"),
]


def main():
    rows = []
    for sid, prop, origin, what, needs, caught, note in T:
        d = os.path.join(HERE, "seeded", sid)
        if not os.path.isdir(d):
            continue
        meta = {"id": sid, "property": prop, "origin": origin, "change": what, "needs_to_manifest": needs,
                "caught_by": caught, "strengthening": note,
                "what_i_ran": [CONFIRM % sid] + [TRY % (sid, " ".join(sorted(caught)))],
                "files": sorted(os.listdir(d))}
        with open(os.path.join(d, "meta.json"), "w") as fh:
            json.dump(meta, fh, indent=1)
        rows.append((sid, prop, what, needs, "; ".join("%s (%s)" % kv for kv in caught.items()), note))
    with open(os.path.join(HERE, "seeded", "INDEX.md"), "w") as fh:
        fh.write("# Seeded changes and the checks that report them\n\n"
                 "Each directory holds `patch.diff` (applies to /repo HEAD), the demonstration (`run_demo.sh <build-dir>`: exit 0 = property holds),\n"
                 "the author's `NOTES.md` and `meta.json`. All were re-confirmed with `tools/confirm_seeded.sh` (compiles, the repository's\n"
                 "36 ctest tests still pass, demo fails with / passes without) and run against the checks with `tools/try_mutant.sh`.\n\n"
                 "| id | property | change | needs | reported by (quick tier) | notes |\n|---|---|---|---|---|---|\n")
        for r in rows:
            fh.write("| %s | %s | %s | %s | %s | %s |\n" % r)
    print("wrote %d meta.json + INDEX.md" % len(rows))


if __name__ == "__main__":
    main()
