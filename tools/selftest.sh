#!/bin/bash
# Runs every seeded change in /verif/seeded/*/ against the checks listed in its meta.json (quick tier,
# scratch worktree, never touching /repo) and prints one line per (change, check).  Takes about an hour.
cd /verif
for d in seeded/*/; do
  id=$(basename "$d")
  [ -f "$d/meta.json" ] || continue
  checks=$(python3 -c "import json,sys; print(' '.join(sorted(json.load(open('$d/meta.json'))['caught_by'])))")
  tools/try_mutant.sh "$d/patch.diff" quick $checks 2>&1 | grep "^MUTANT" | cut -c1-300
done
