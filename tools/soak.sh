#!/bin/bash
# tools/soak.sh <seed> [tier] [checks...]  - runs the given (default: all) checks on /repo with VERIF_SEED=<seed>, one line per check.
cd /verif
seed="$1"; tier="${2:-quick}"; shift; shift
checks="${*:-C01 C02 C03 C04 C05 C06 C07 C08 C09 C10 C11 C12 C13 C14 C15 C16 C17 C18 C19 C20}"
for c in $checks; do
  s=$(date +%s)
  out=$(VERIF_SEED="$seed" ./check "$c" --tier "$tier" 2>&1); rc=$?
  e=$(( $(date +%s) - s ))
  echo "SOAK seed=$seed $c tier=$tier exit=$rc ${e}s $(echo "$out" | grep -c '^KNOWN-FINDING') known; $(echo "$out" | grep '^VIOLATION\|INCONCLUSIVE\|HARNESS-FAILURE' | head -3 | tr '\n' '|')"
  if [ "$rc" != 0 ]; then echo "$out" > "out/soak-$seed-$c.log"; fi
done
