#!/bin/bash
# Run checks against a seeded change without touching /repo:
#   tools/try_mutant.sh <patch.diff> <tier> C04 [C13 ...]
# Creates a scratch worktree of /repo's HEAD outside /repo and /verif, applies the patch, runs the
# given checks with VERIF_REPO pointing at it, prints one line per check, and removes the worktree
# and its build output again.
set -u
patch="$(readlink -f "$1")"; tier="$2"; shift 2
name="vm-$$-$(basename "$(dirname "$patch")")"
wt="/tmp/$name"
cd /verif
git -C /repo worktree add -q --detach "$wt" HEAD || exit 2
cleanup() {
  git -C /repo worktree remove --force "$wt" 2>/dev/null
  tag=$(python3 -c "import hashlib,sys; print(hashlib.sha1(sys.argv[1].encode()).hexdigest()[:10])" "$wt")
  rm -rf /verif/.build/*-"$tag" /verif/.build/*-"$tag".lock
}
trap cleanup EXIT
if ! git -C "$wt" apply "$patch"; then echo "PATCH-DOES-NOT-APPLY $patch"; exit 2; fi
for c in "$@"; do
  out=$(VERIF_REPO="$wt" VERIF_SEED="${VERIF_SEED:-1}" ./check "$c" --tier "$tier" 2>&1)
  rc=$?
  keys=$(echo "$out" | grep -o "^VIOLATION.*key=[^ ]*" | sed 's/.*key=//' | sort -u | head -8 | tr '\n' ' ')
  echo "MUTANT $(basename "$(dirname "$patch")") check=$c tier=$tier exit=$rc keys: $keys"
  if [ "$rc" = 2 ]; then echo "$out" | grep -i "INCONCLUSIVE\|HARNESS\|error" | head -5; fi
done
