"""Sanitizer builds of the dbus tree under test (always from the current working tree).

build(flavor) configures ${VERIF_REPO:-/repo} out-of-tree into
/verif/.build/<flavor>-<hash of repo path> and runs ninja on the needed targets
under an flock.  Returns a Build object that knows where binaries/libs are and
can compile C harnesses from /verif/harness against that build.
"""
import fcntl
import hashlib
import json
import os
import shutil
import subprocess
import sys
import time

VERIF = os.path.dirname(os.path.dirname(os.path.abspath(__file__)))
GUARD = "FREEDESKTOP_DBUS_VERIF"

FLAVORS = {
    "asan": "-O1 -g -fno-omit-frame-pointer -fsanitize=address,undefined "
            "-fno-sanitize-recover=all -Wno-error -D%s" % GUARD,
    "tsan": "-O1 -g -fno-omit-frame-pointer -fsanitize=thread -Wno-error -D%s" % GUARD,
    "plain": "-O1 -g -fno-omit-frame-pointer -Wno-error -D%s" % GUARD,
}

TARGETS = ["dbus-1", "dbus-internal", "dbus-daemon-internal", "dbus-daemon",
           "launch-helper-internal", "dbus-daemon-launch-helper-for-tests", "dbus-testutils"]

HASH_DIRS = ["dbus", "bus", "test", "cmake"]
HASH_EXT = (".c", ".h", ".in", ".cmake", ".txt")


class BuildError(Exception):
    pass


def repo_path():
    return os.path.abspath(os.environ.get("VERIF_REPO", "/repo"))


def _tree_digest(repo):
    h = hashlib.sha256()
    files = []
    for d in HASH_DIRS:
        for root, dirs, fs in os.walk(os.path.join(repo, d)):
            dirs[:] = [x for x in dirs if x not in ("data",)]
            for f in fs:
                if f.endswith(HASH_EXT):
                    files.append(os.path.join(root, f))
    for f in os.listdir(repo):
        p = os.path.join(repo, f)
        if os.path.isfile(p) and f.endswith(HASH_EXT):
            files.append(p)
    files.sort()
    per = {}
    for p in files:
        try:
            with open(p, "rb") as fh:
                d = hashlib.sha256(fh.read()).hexdigest()
        except OSError:
            continue
        rel = os.path.relpath(p, repo)
        per[rel] = d
        h.update(rel.encode() + b"\0" + d.encode() + b"\n")
    return h.hexdigest(), per


def _git_info(repo):
    try:
        head = subprocess.run(["git", "-C", repo, "rev-parse", "HEAD"], capture_output=True,
                              text=True, timeout=20).stdout.strip()
        dirty = subprocess.run(["git", "-C", repo, "status", "--porcelain", "--untracked-files=no"],
                               capture_output=True, text=True, timeout=20).stdout.strip() != ""
    except Exception:
        head, dirty = "unknown", True
    return head, dirty


class Build:
    def __init__(self, flavor, bdir, repo, digest):
        self.flavor = flavor
        self.dir = bdir
        self.repo = repo
        self.digest = digest
        self.cflags = FLAVORS[flavor]
        self.head, self.dirty = _git_info(repo)

    @property
    def daemon(self):
        return os.path.join(self.dir, "bin", "dbus-daemon")

    @property
    def launch_helper(self):
        return os.path.join(self.dir, "bin", "dbus-daemon-launch-helper-for-tests")

    @property
    def libdir(self):
        return os.path.join(self.dir, "lib")

    def info(self):
        return {"flavor": self.flavor, "cflags": self.cflags, "tree_digest": self.digest,
                "repo": self.repo, "repo_head": self.head, "repo_dirty": self.dirty}

    def harness(self, name, extra_libs=(), bus=False, testutils=False):
        """Compile /verif/harness/<name>.c against this build; returns path of the executable."""
        src = os.path.join(VERIF, "harness", name + ".c")
        hdir = os.path.join(self.dir, "verif-harness")
        os.makedirs(hdir, exist_ok=True)
        out = os.path.join(hdir, name)
        with open(os.path.join(self.dir, ".verif-lock"), "w") as lk:
            fcntl.flock(lk, fcntl.LOCK_EX)
            deps = [src, os.path.join(VERIF, "harness", "hcommon.h")]
            libs = [os.path.join(self.libdir, "libdbus-1.so")]
            newest = max(os.path.getmtime(p) for p in deps + libs if os.path.exists(p))
            stamp = out + ".stamp"
            want = self.digest + ":" + self.cflags
            have = open(stamp).read() if os.path.exists(stamp) else ""
            if os.path.exists(out) and os.path.getmtime(out) >= newest and have == want:
                return out
            cmd = ["gcc"] + self.cflags.split() + [
                "-DDBUS_COMPILATION", "-DHAVE_CONFIG_H", "-DDBUS_STATIC_BUILD_NOT",
                "-I" + self.repo, "-I" + self.dir, "-I" + os.path.join(VERIF, "harness"),
                src, "-o", out]
            if testutils:
                cmd += ["-I" + os.path.join(self.repo, "test"), os.path.join(self.libdir, "libdbus-testutils.a")]
            if bus:
                cmd += [os.path.join(self.libdir, "libdbus-daemon-internal.a")]
            cmd += [os.path.join(self.libdir, "libdbus-internal.a"),
                    "-L" + self.libdir, "-ldbus-1", "-lexpat", "-lpthread",
                    "-Wl,-rpath," + self.libdir]
            cmd += list(extra_libs)
            r = subprocess.run(cmd, capture_output=True, text=True)
            if r.returncode != 0:
                raise BuildError("harness %s failed to compile:\n%s\n%s" % (name, " ".join(cmd), r.stderr[-4000:]))
            with open(stamp, "w") as fh:
                fh.write(want)
        return out


def _configure(repo, bdir, flavor):
    cmd = ["cmake", "-G", "Ninja", "-S", repo, "-B", bdir,
           "-DCMAKE_BUILD_TYPE=None",
           "-DCMAKE_C_FLAGS=" + FLAVORS[flavor],
           "-DDBUS_BUILD_TESTS=ON", "-DDBUS_WITH_GLIB=OFF", "-DDBUS_BUILD_X11=OFF",
           "-DDBUS_ENABLE_DOXYGEN_DOCS=OFF", "-DDBUS_ENABLE_XML_DOCS=OFF",
           "-DDBUS_ENABLE_QT_HELP=OFF", "-DENABLE_QT_HELP=OFF", "-DENABLE_SYSTEMD=OFF",
           "-DDBUS_ENABLE_VERBOSE_MODE=ON", "-DDBUS_DISABLE_ASSERT=OFF",
           "-DDBUS_DISABLE_CHECKS=OFF", "-DDBUS_ENABLE_STATS=ON",
           "-DDBUS_ENABLE_CONTAINERS=OFF"]
    r = subprocess.run(cmd, capture_output=True, text=True)
    if r.returncode != 0:
        raise BuildError("cmake configure failed:\n" + r.stdout[-3000:] + r.stderr[-3000:])


def _ninja(bdir):
    r = subprocess.run(["ninja", "-C", bdir] + TARGETS, capture_output=True, text=True)
    return r


_held = {}    # flavor -> open lock file (shared lock kept for the life of the process)


def build(flavor="asan", quiet=False):
    """Build (if needed) and return a Build.  Locking: a process that uses a build keeps a SHARED flock on it
    until it exits; rebuilding needs the EXCLUSIVE lock, so a build directory is never relinked under a
    running check.  Worker processes forked by a check inherit VERIF_BUILT_<flavor> and skip all of this."""
    repo = repo_path()
    tag = hashlib.sha1(repo.encode()).hexdigest()[:10]
    root = os.path.join(VERIF, ".build")
    os.makedirs(root, exist_ok=True)
    bdir = os.path.join(root, "%s-%s" % (flavor, tag))
    lockp = os.path.join(root, "%s-%s.lock" % (flavor, tag))
    envkey = "VERIF_BUILT_%s_%s" % (flavor, tag)
    if os.environ.get(envkey):
        return Build(flavor, bdir, repo, os.environ[envkey])
    t0 = time.time()
    lk = open(lockp, "w")
    fcntl.flock(lk, fcntl.LOCK_SH)
    digest, per = _tree_digest(repo)
    manp = os.path.join(bdir, ".verif-tree.json")

    def up_to_date():
        try:
            old = json.load(open(manp))
        except Exception:
            return None
        if old.get("digest") == digest and old.get("flags") == FLAVORS[flavor] and \
                all(os.path.exists(p) for p in (os.path.join(bdir, "bin", "dbus-daemon"), os.path.join(bdir, "lib", "libdbus-1.so"))):
            return old
        return None

    if up_to_date() is None:
        fcntl.flock(lk, fcntl.LOCK_UN)
        fcntl.flock(lk, fcntl.LOCK_EX)
        digest, per = _tree_digest(repo)
        if up_to_date() is None:
            old = None
            try:
                old = json.load(open(manp))
            except Exception:
                old = None
            if old and old.get("flags") != FLAVORS[flavor]:
                shutil.rmtree(bdir, ignore_errors=True)
            if not os.path.exists(os.path.join(bdir, "build.ninja")):
                shutil.rmtree(bdir, ignore_errors=True)
                _configure(repo, bdir, flavor)
            changed = []
            if old:
                oldper = old.get("files", {})
                changed = [f for f, d in per.items() if oldper.get(f) != d]
                if [f for f in oldper if f not in per]:
                    changed.append("<removed>")
            r = _ninja(bdir)
            if r.returncode != 0:
                # one retry from scratch (stale cmake state), then give up
                shutil.rmtree(bdir, ignore_errors=True)
                _configure(repo, bdir, flavor)
                r = _ninja(bdir)
                if r.returncode != 0:
                    fcntl.flock(lk, fcntl.LOCK_UN)
                    raise BuildError("ninja failed:\n" + r.stdout[-6000:] + r.stderr[-2000:])
            elif old and changed and "ninja: no work to do" in r.stdout:
                # files changed but ninja trusts (preserved) mtimes: rebuild from scratch
                shutil.rmtree(bdir, ignore_errors=True)
                _configure(repo, bdir, flavor)
                r = _ninja(bdir)
                if r.returncode != 0:
                    fcntl.flock(lk, fcntl.LOCK_UN)
                    raise BuildError("ninja failed:\n" + r.stdout[-6000:] + r.stderr[-2000:])
            with open(manp, "w") as fh:
                json.dump({"digest": digest, "flags": FLAVORS[flavor], "files": per}, fh)
            if not quiet:
                sys.stderr.write("[build] %s rebuilt in %.1fs (%s)\n" % (flavor, time.time() - t0, bdir))
        fcntl.flock(lk, fcntl.LOCK_SH)     # downgrade: keep others from relinking while we run
    _held[flavor] = lk
    os.environ[envkey] = digest
    return Build(flavor, bdir, repo, digest)


if __name__ == "__main__":
    for f in (sys.argv[1:] or ["asan"]):
        b = build(f)
        print(json.dumps(b.info()))
