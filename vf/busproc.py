"""Daemon-under-test launcher: config generation, start/stop, sanitizer-log scraping."""
import os
import signal
import subprocess
import time

from . import hrun

BUS_NAME = "org.freedesktop.DBus"
BUS_PATH = "/org/freedesktop/DBus"
BUS_IFACE = "org.freedesktop.DBus"


def xml_escape(s):
    return s.replace("&", "&amp;").replace("<", "&lt;").replace(">", "&gt;").replace('"', "&quot;")


OPEN_POLICY = """
  <policy context="default">
    <allow send_destination="*" eavesdrop="true"/>
    <allow eavesdrop="true"/>
    <allow own="*"/>
    <allow user="*"/>
  </policy>
"""


def make_config(sock_path, policy_xml=None, limits=None, servicedirs=(), bus_type=None,
                auth=(), allow_anonymous=False, extra=""):
    out = ['<!DOCTYPE busconfig PUBLIC "-//freedesktop//DTD D-Bus Bus Configuration 1.0//EN" '
           '"http://www.freedesktop.org/standards/dbus/1.0/busconfig.dtd">', "<busconfig>"]
    if bus_type:
        out.append("  <type>%s</type>" % bus_type)
    out.append("  <listen>unix:path=%s</listen>" % xml_escape(sock_path))
    for a in auth:
        out.append("  <auth>%s</auth>" % a)
    if allow_anonymous:
        out.append("  <allow_anonymous/>")
    for d in servicedirs:
        out.append("  <servicedir>%s</servicedir>" % xml_escape(d))
    out.append(policy_xml if policy_xml is not None else OPEN_POLICY)
    for k, v in sorted((limits or {}).items()):
        out.append('  <limit name="%s">%d</limit>' % (k, v))
    if extra:
        out.append(extra)
    out.append("</busconfig>")
    return "\n".join(out) + "\n"


_TCP_OK = None


def tcp_loopback_available():
    """True when a TCP socket can listen on and connect to 127.0.0.1 here (checked once).  Parts that drive the bus over loopback
    TCP are skipped - and say so in the evidence - where it cannot."""
    global _TCP_OK
    if _TCP_OK is None and os.environ.get("VERIF_NO_TCP"):
        _TCP_OK = False          # for testing the degraded mode
    if _TCP_OK is None:
        import socket
        try:
            l = socket.socket(socket.AF_INET, socket.SOCK_STREAM)
            l.bind(("127.0.0.1", 0))
            l.listen(1)
            c = socket.socket(socket.AF_INET, socket.SOCK_STREAM)
            c.settimeout(3)
            c.connect(l.getsockname())
            a, _ = l.accept()
            a.close()
            c.close()
            l.close()
            _TCP_OK = True
        except OSError:
            _TCP_OK = False
    return _TCP_OK


class Daemon(object):
    def __init__(self, build, rundir, config_text, name="bus", leaks=True, env=None, wrapper=(), extra_args=(), print_address=False):
        self.build = build
        self.rundir = rundir
        os.makedirs(rundir, exist_ok=True)
        try:
            os.chmod(rundir, 0o755)
        except OSError:
            pass
        self.sock = os.path.join(rundir, name + ".sock")
        self.conf = os.path.join(rundir, name + ".conf")
        self.errpath = os.path.join(rundir, name + ".stderr")
        self.config_text = config_text.replace("@SOCK@", self.sock)
        with open(self.conf, "w") as fh:
            fh.write(self.config_text)
        e = hrun.san_env(env, leaks=leaks)
        # one log file per daemon; asan writes to stderr (captured below)
        self.errf = open(self.errpath, "wb")
        def _die_with_parent():
            # a daemon must not outlive the harness process that started it (a killed check would otherwise leave daemons -
            # and their inotify instances - behind)
            try:
                import ctypes
                ctypes.CDLL("libc.so.6", use_errno=True).prctl(1, signal.SIGKILL, 0, 0, 0)    # PR_SET_PDEATHSIG
            except Exception:
                pass
        self.addrpath = os.path.join(rundir, name + ".addr")
        out = subprocess.DEVNULL
        if print_address:
            # the bus writes its listening addresses (one line, ';'-separated) to its stdout
            out = open(self.addrpath, "wb")
            extra_args = list(extra_args) + ["--print-address=1"]
        self.proc = subprocess.Popen(list(wrapper) + [build.daemon, "--config-file=" + self.conf, "--nofork", "--nopidfile", "--nosyslog"] + list(extra_args),
                                     stdin=subprocess.DEVNULL, stdout=out, stderr=self.errf, env=e,
                                     cwd=rundir, preexec_fn=_die_with_parent)
        self.pid = self.proc.pid
        self.stopped = False
        self.exit_status = None
        deadline = time.time() + (60 if wrapper else 20)
        while not os.path.exists(self.sock):
            if self.proc.poll() is not None:
                break
            if time.time() > deadline:
                break
            time.sleep(0.005)
        self.came_up = os.path.exists(self.sock)

    @property
    def address(self):
        return "unix:path=" + self.sock

    def addresses(self):
        """the addresses the bus printed (needs print_address=True): list of (transport, {key: value})"""
        deadline = time.time() + 5
        text = ""
        while time.time() < deadline:
            try:
                text = open(self.addrpath).read().strip()
            except OSError:
                text = ""
            if text:
                break
            time.sleep(0.01)
        out = []
        for a in text.split(";"):
            if ":" in a:
                t, rest = a.split(":", 1)
                out.append((t, dict(kv.split("=", 1) for kv in rest.split(",") if "=" in kv)))
        return out

    def started(self):
        return os.path.exists(self.sock) and self.proc.poll() is None

    def alive(self):
        return self.proc.poll() is None

    def reload_config(self, text=None):
        if text is not None:
            self.config_text = text.replace("@SOCK@", self.sock)
            tmp = self.conf + ".new"
            with open(tmp, "w") as fh:
                fh.write(self.config_text)
            os.rename(tmp, self.conf)
        os.kill(self.pid, signal.SIGHUP)

    def cpu_ticks(self):
        try:
            with open("/proc/%d/stat" % self.pid) as fh:
                f = fh.read().rsplit(")", 1)[1].split()
            return int(f[11]) + int(f[12])
        except (OSError, IndexError, ValueError):
            return None

    def open_fds(self):
        try:
            out = {}
            d = "/proc/%d/fd" % self.pid
            for n in os.listdir(d):
                try:
                    out[int(n)] = os.readlink(os.path.join(d, n))
                except OSError:
                    pass
            return out
        except OSError:
            return None

    def stop(self, timeout=20):
        """SIGTERM, wait; returns (exit status, stderr text)."""
        if not self.stopped:
            self.stopped = True
            if self.proc.poll() is None:
                try:
                    self.proc.send_signal(signal.SIGTERM)
                except OSError:
                    pass
                try:
                    self.proc.wait(timeout=timeout)
                except subprocess.TimeoutExpired:
                    self.proc.kill()
                    self.proc.wait()
                    self.exit_status = "killed-after-sigterm-timeout"
            if self.exit_status is None:
                self.exit_status = self.proc.returncode
            self.errf.close()
        return self.exit_status, self.stderr_text()

    def stderr_text(self):
        try:
            with open(self.errpath, "rb") as fh:
                return fh.read().decode("latin1")
        except OSError:
            return ""

    def problems(self):
        """After stop(): list of (class, site, stderr excerpt) for anything that must not happen."""
        out = []
        err = self.stderr_text()
        if "LeakSanitizer" in err and "setup_reload_pipe" in err:
            # main() never releases the watch of its reload pipe (64 bytes allocated once at start-up, bus/main.c
            # setup_reload_pipe); LeakSanitizer reports it only when no stale pointer to it is left on the stack - rarely in
            # normal runs, always when inotify could not be initialised (per-user inotify instances exhausted).  It is
            # process-lifetime memory unrelated to any operation under test: a report consisting only of it (and the exit
            # status it causes) is dropped, anything else is kept.
            head, _, tail = err.partition("==ERROR: LeakSanitizer")
            blocks = [b for b in tail.split("\n\n") if "leak of" in b]
            if blocks and all("setup_reload_pipe" in b for b in blocks):
                self.env_inotify_exhausted = True
                err = head.rsplit("=================================================================", 1)[0]
                if self.exit_status not in (0, None) and not hrun.classify_stderr(err):
                    return out
        cls = hrun.classify_stderr(err)
        if cls:
            out.append((cls[0], cls[1], err[-4000:]))
        st = self.exit_status
        if st == -signal.SIGTERM and not cls and not self.came_up:
            # our own SIGTERM reached a daemon that had not finished starting (its socket never appeared within the deadline -
            # seen only on a heavily loaded machine): it died before it could install its handler.  The caller has already
            # reported 'daemon did not start' as inconclusive; this is not something the bus did wrong.
            return out
        if st not in (0, None) and not cls:
            out.append(("exit:%s" % st, "daemon", err[-2000:]))
        return out
