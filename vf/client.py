"""Raw unix-socket D-Bus client built on the independent codec (no libdbus)."""
import array
import os
import select
import socket
import struct
import time

from . import wire
from .wire import Variant

BUS = b"org.freedesktop.DBus"
BUS_PATH = b"/org/freedesktop/DBus"

WATCHDOG = 20.0


class Timeout(Exception):
    pass


class Closed(Exception):
    pass


class Clock(object):
    """Logical clock shared by all clients of a scenario."""

    def __init__(self):
        self.t = 0

    def tick(self):
        self.t += 1
        return self.t


def _connect_retry(s, path):
    """bind() makes the socket file visible before listen(): retry a refused connect briefly."""
    deadline = time.time() + 5.0
    while True:
        try:
            s.connect(path)
            return
        except (ConnectionRefusedError, FileNotFoundError):
            if time.time() > deadline:
                raise
            time.sleep(0.002)


def connect_as(path, uid=None, gid=None):
    """Return a connected AF_UNIX socket whose peer credentials are those of (uid, gid).
    Needs root for uid != current.  path may also be ("host", port[, nonce bytes]): a TCP connection (no credentials;
    the nonce of a nonce-tcp listener, if given, is written first)."""
    if isinstance(path, tuple):
        s = socket.socket(socket.AF_INET, socket.SOCK_STREAM)
        s.setsockopt(socket.IPPROTO_TCP, socket.TCP_NODELAY, 1)
        _connect_retry(s, (path[0], path[1]))
        if len(path) > 2 and path[2]:
            s.sendall(path[2])
        return s
    if uid is None or (uid == os.getuid() and (gid is None or gid == os.getgid())):
        s = socket.socket(socket.AF_UNIX, socket.SOCK_STREAM)
        _connect_retry(s, path)
        return s
    a, b = socket.socketpair(socket.AF_UNIX, socket.SOCK_STREAM)
    pid = os.fork()
    if pid == 0:
        try:
            a.close()
            os.setgroups([gid if gid is not None else uid])
            os.setgid(gid if gid is not None else uid)
            os.setuid(uid)
            s = socket.socket(socket.AF_UNIX, socket.SOCK_STREAM)
            _connect_retry(s, path)
            b.sendmsg([b"x"], [(socket.SOL_SOCKET, socket.SCM_RIGHTS, array.array("i", [s.fileno()]))])
            os._exit(0)
        except BaseException:
            os._exit(1)
    b.close()
    try:
        msg, anc, _, _ = a.recvmsg(1, socket.CMSG_LEN(4))
    finally:
        a.close()
        os.waitpid(pid, 0)
    for level, typ, data in anc:
        if level == socket.SOL_SOCKET and typ == socket.SCM_RIGHTS:
            fd = struct.unpack("i", data[:4])[0]
            return socket.socket(fileno=fd)
    raise OSError("could not obtain a socket as uid %r" % uid)


class Received(object):
    __slots__ = ("msg", "fds", "t", "raw")

    def __init__(self, msg, fds, t, raw):
        self.msg = msg
        self.fds = fds
        self.t = t
        self.raw = raw

    def __repr__(self):
        m = self.msg
        k = m.known()
        return "<recv t=%s type=%d serial=%d rs=%s sender=%s dest=%s %s.%s err=%s body=%r>" % (
            self.t, m.type, m.serial, k.get(5), k.get(7), k.get(6), k.get(2), k.get(3), k.get(4), m.body[:3])


class Client(object):
    def __init__(self, path, clock=None, uid=None, gid=None, label=None):
        self.path = path
        self.clock = clock or Clock()
        self.label = label
        self.uid = os.getuid() if uid is None else uid
        self.tcp = isinstance(path, tuple)
        self.sock = connect_as(path, uid, gid)
        self.sock.setblocking(True)
        self.buf = bytearray()
        self.fdbuf = []
        self.serial = 0
        self.unique = None
        self.inbox = []          # Received, in arrival order, not yet consumed by wait_reply
        self.log = []            # every Received ever, in arrival order
        self.sent = []           # (t, serial, bytes)
        self.closed = False
        self.eof = False
        self.unix_fd = False
        self.guid = None

    # ------------------------------------------------------------------ SASL
    def send_bytes(self, data, fds=()):
        if fds:
            self.sock.sendmsg([data], [(socket.SOL_SOCKET, socket.SCM_RIGHTS, array.array("i", list(fds)))])
        else:
            self.sock.sendall(data)

    def read_line(self, timeout=WATCHDOG):
        deadline = time.time() + timeout
        while b"\r\n" not in self.buf:
            self._fill(deadline)
        i = self.buf.index(b"\r\n")
        line = bytes(self.buf[:i])
        del self.buf[:i + 2]
        return line

    def auth(self, negotiate_fd=False, uid=None, begin=True):
        ident = str(self.uid if uid is None else uid).encode().hex().encode()
        try:
            if self.tcp:
                # no socket credentials over TCP: the listener must allow ANONYMOUS
                self.send_bytes(b"\0AUTH ANONYMOUS 7665726966\r\n")
            else:
                self.send_bytes(b"\0AUTH EXTERNAL " + ident + b"\r\n")
        except OSError as e:
            raise Closed("connection dropped before authentication: %s" % e)
        line = self.read_line()
        if not line.startswith(b"OK "):
            raise Closed("auth rejected: %r" % line)
        self.guid = line[3:]
        if negotiate_fd:
            self.send_bytes(b"NEGOTIATE_UNIX_FD\r\n")
            line = self.read_line()
            self.unix_fd = line.startswith(b"AGREE_UNIX_FD")
        if begin:
            try:
                self.send_bytes(b"BEGIN\r\n")
            except OSError as e:
                raise Closed("connection dropped during authentication: %s" % e)
        return self

    # ------------------------------------------------------------------ sending
    def next_serial(self):
        self.serial += 1
        return self.serial

    def build(self, mtype, path=None, iface=None, member=None, dest=None, sig=b"", body=(), flags=0,
              reply_serial=None, error_name=None, sender=None, extra_fields=(), serial=None, order="l",
              unix_fds=None):
        if serial is None:
            serial = self.next_serial()
        f = []
        if path is not None:
            f.append((1, Variant(b"o", path)))
        if iface is not None:
            f.append((2, Variant(b"s", iface)))
        if member is not None:
            f.append((3, Variant(b"s", member)))
        if error_name is not None:
            f.append((4, Variant(b"s", error_name)))
        if reply_serial is not None:
            f.append((5, Variant(b"u", reply_serial)))
        if dest is not None:
            f.append((6, Variant(b"s", dest)))
        if sender is not None:
            f.append((7, Variant(b"s", sender)))
        if unix_fds is not None:
            f.append((9, Variant(b"u", unix_fds)))
        f += list(extra_fields)
        return serial, wire.encode_message(mtype, f, sig, body, serial=serial, flags=flags, order=order)

    def send_msg(self, data, serial=None, fds=(), chunks=None):
        t = self.clock.tick()
        self.sent.append((t, serial, data))
        try:
            if chunks:
                off = 0
                first = True
                for c in chunks:
                    piece = data[off:off + c]
                    off += c
                    if piece:
                        self.send_bytes(piece, fds if first else ())
                        first = False
                if off < len(data):
                    self.send_bytes(data[off:], fds if first else ())
            else:
                self.send_bytes(data, fds)
        except (BrokenPipeError, ConnectionResetError, OSError):
            self.eof = True
            raise Closed("send failed")
        return t

    def call_async(self, dest, path, iface, member, sig=b"", body=(), flags=0, **kw):
        serial, data = self.build(1, path=path, iface=iface, member=member, dest=dest, sig=sig, body=body, flags=flags, **kw)
        self.send_msg(data, serial)
        return serial

    def call(self, dest, path, iface, member, sig=b"", body=(), flags=0, timeout=WATCHDOG, **kw):
        serial = self.call_async(dest, path, iface, member, sig, body, flags, **kw)
        return self.wait_reply(serial, timeout)

    def bus_call(self, member, sig=b"", body=(), timeout=WATCHDOG, **kw):
        serial = self.call_async(BUS, BUS_PATH, BUS, member, sig, body, **kw)
        return self.wait_reply(serial, timeout, sender=BUS)

    def bus_call_async(self, member, sig=b"", body=(), **kw):
        return self.call_async(BUS, BUS_PATH, BUS, member, sig, body, **kw)

    def hello(self):
        r = self.bus_call(b"Hello")
        if r.msg.type == 2 and r.msg.body:
            self.unique = r.msg.body[0]
        return r

    def signal(self, path, iface, member, sig=b"", body=(), dest=None, **kw):
        serial, data = self.build(4, path=path, iface=iface, member=member, dest=dest, sig=sig, body=body, **kw)
        self.send_msg(data, serial)
        return serial

    def reply(self, to, sig=b"", body=(), dest=None, **kw):
        """method return for Received `to`."""
        k = to.msg.known()
        serial, data = self.build(2, reply_serial=to.msg.serial, dest=dest if dest is not None else k.get(7), sig=sig, body=body, **kw)
        self.send_msg(data, serial)
        return serial

    def error(self, reply_serial, dest, name=b"com.example.Error.E", sig=b"", body=(), **kw):
        serial, data = self.build(3, reply_serial=reply_serial, dest=dest, error_name=name, sig=sig, body=body, **kw)
        self.send_msg(data, serial)
        return serial

    # ------------------------------------------------------------------ receiving
    def _fill(self, deadline):
        if self.eof:
            raise Closed("eof")
        remaining = deadline - time.time()
        if remaining <= 0:
            raise Timeout()
        r, _, _ = select.select([self.sock], [], [], remaining)
        if not r:
            raise Timeout()
        try:
            data, anc, flags, _ = self.sock.recvmsg(65536, socket.CMSG_SPACE(4 * 64))
        except (ConnectionResetError, OSError):
            self.eof = True
            raise Closed("reset")
        for level, typ, cdata in anc:
            if level == socket.SOL_SOCKET and typ == socket.SCM_RIGHTS:
                n = len(cdata) // 4
                self.fdbuf += list(struct.unpack("%di" % n, cdata[:4 * n]))
        if not data:
            self.eof = True
            raise Closed("eof")
        self.buf += data

    def _try_pop(self):
        if len(self.buf) < 16:
            return None
        total = wire.frame_length(bytes(self.buf[:16]), array_limit=False)
        if len(self.buf) < total:
            return None
        raw = bytes(self.buf[:total])
        del self.buf[:total]
        r = wire.validate(raw, nfds=None)
        if r.msg is None:
            raise wire.Invalid("bus sent an undecodable message: %r" % (r,))
        nf = r.msg.known().get(9, 0)
        fds = self.fdbuf[:nf]
        del self.fdbuf[:nf]
        rec = Received(r.msg, fds, self.clock.tick(), raw)
        self.log.append(rec)
        return rec

    def recv(self, timeout=WATCHDOG):
        """Next message (from inbox first)."""
        if self.inbox:
            return self.inbox.pop(0)
        deadline = time.time() + timeout
        while True:
            rec = self._try_pop()
            if rec is not None:
                return rec
            self._fill(deadline)

    def pump(self, timeout=0.0):
        """Read whatever is available now into the inbox (non-blocking by default)."""
        deadline = time.time() + timeout
        while True:
            rec = self._try_pop()
            while rec is not None:
                self.inbox.append(rec)
                rec = self._try_pop()
            try:
                self._fill(deadline if timeout > 0 else time.time() + 0.0005)
            except Timeout:
                return
            except Closed:
                return

    def _is_reply(self, rec, serial, sender):
        m = rec.msg
        if m.type not in (2, 3):
            return False
        k = m.known()
        if k.get(5) != serial:
            return False
        # an eavesdropper / monitor also sees replies addressed to OTHER connections whose REPLY_SERIAL may
        # collide with one of our serials: a reply to us is addressed to us
        if self.unique is not None and k.get(6) not in (None, self.unique):
            return False
        if sender is not None and k.get(7) != sender:
            return False
        return True

    def wait_reply(self, serial, timeout=WATCHDOG, sender=None):
        """Read until a METHOD_RETURN/ERROR with REPLY_SERIAL == serial addressed to us (and, if given,
        from `sender`) arrives; everything else read meanwhile stays in the inbox (in order)."""
        for i, rec in enumerate(self.inbox):
            if self._is_reply(rec, serial, sender):
                return self.inbox.pop(i)
        deadline = time.time() + timeout
        while True:
            rec = self._try_pop()
            if rec is None:
                self._fill(deadline)
                continue
            if self._is_reply(rec, serial, sender):
                return rec
            self.inbox.append(rec)

    def barrier(self, timeout=WATCHDOG):
        """Driver round-trip: when it returns, everything the bus queued for us earlier is in inbox."""
        r = self.bus_call(b"GetId", timeout=timeout)
        return r

    def take_inbox(self):
        out = self.inbox
        self.inbox = []
        return out

    def wait_eof(self, timeout=WATCHDOG):
        """True if the peer closed the connection within the timeout (messages read meanwhile go to inbox)."""
        deadline = time.time() + timeout
        while True:
            try:
                rec = self._try_pop()
                while rec is not None:
                    self.inbox.append(rec)
                    rec = self._try_pop()
                self._fill(deadline)
            except Closed:
                return True
            except Timeout:
                return False
            except wire.Invalid:
                return False

    def close(self):
        if not self.closed:
            self.closed = True
            for fd in self.fdbuf:
                try:
                    os.close(fd)
                except OSError:
                    pass
            try:
                self.sock.close()
            except OSError:
                pass


def connect(path, clock=None, uid=None, gid=None, negotiate_fd=False, hello=True, label=None):
    c = Client(path, clock, uid, gid, label)
    c.auth(negotiate_fd=negotiate_fd)
    if hello:
        c.hello()
    return c
