"""Descriptor-passing helpers for C15: probe descriptors with a checkable identity, and a raw client
that records exactly where in the byte stream descriptors arrived and never loses track of one."""
import fcntl
import os
import socket

from . import client

ACCMODE = os.O_RDONLY | os.O_WRONLY | os.O_RDWR


class ProbeFd(object):
    """One open file created by the check.  Identity = (st_dev, st_ino, access mode) plus, for regular
    files, the shared file offset and the content; `link` is what /proc/<bus pid>/fd shows for a copy."""
    __slots__ = ("idx", "kind", "fd", "other", "dev", "ino", "mode", "offset", "token", "link", "op_class")

    def __repr__(self):
        return "fd#%d(%s)" % (self.idx, self.kind)


class FdFactory(object):
    def __init__(self, directory):
        self.dir = directory
        os.makedirs(directory, exist_ok=True)
        self.all = []
        self.by_link = {}

    def make(self, rng, op_class="?"):
        p = ProbeFd()
        p.idx = len(self.all)
        p.other = None
        p.offset = None
        p.token = None
        p.op_class = op_class
        r = rng.random()
        if r < 0.6:
            p.kind = "file"
            path = os.path.join(self.dir, "f%d" % p.idx)
            p.token = ("probe-%d-%08x" % (p.idx, rng.getrandbits(32))).encode() + b"." * rng.randint(0, 40)
            flags = rng.choice([os.O_RDWR, os.O_RDWR, os.O_RDONLY])
            with open(path, "wb") as fh:
                fh.write(p.token)
            p.fd = os.open(path, flags)
            p.offset = rng.randint(0, len(p.token))
            os.lseek(p.fd, p.offset, os.SEEK_SET)
            p.link = path
        elif r < 0.85:
            rd, wr = os.pipe()
            if rng.random() < 0.5:
                p.kind, p.fd, p.other = "pipe-r", rd, wr
            else:
                p.kind, p.fd, p.other = "pipe-w", wr, rd
            p.link = "pipe:[%d]" % os.fstat(p.fd).st_ino
        else:
            a, b = socket.socketpair(socket.AF_UNIX, socket.SOCK_DGRAM)
            p.kind = "socket"
            p.fd = a.detach()
            p.other = b.detach()
            p.link = "socket:[%d]" % os.fstat(p.fd).st_ino
        st = os.fstat(p.fd)
        p.dev, p.ino = st.st_dev, st.st_ino
        p.mode = fcntl.fcntl(p.fd, fcntl.F_GETFL) & ACCMODE
        self.all.append(p)
        self.by_link[p.link] = p
        return p

    def mismatch(self, rfd, p):
        """None if the received descriptor rfd is the same open file as probe p, else a short reason."""
        try:
            st = os.fstat(rfd)
        except OSError:
            return "not-open"
        if (st.st_dev, st.st_ino) != (p.dev, p.ino):
            return "other-file"
        try:
            if fcntl.fcntl(rfd, fcntl.F_GETFL) & ACCMODE != p.mode:
                return "access-mode"
            if p.kind == "file":
                if os.lseek(rfd, 0, os.SEEK_CUR) != p.offset:
                    return "file-offset"
                if os.pread(rfd, len(p.token) + 8, 0) != p.token:
                    return "content"
        except OSError:
            return "not-usable"
        return None

    def identify(self, rfd):
        try:
            st = os.fstat(rfd)
        except OSError:
            return None
        for p in self.all:
            if (p.dev, p.ino) == (st.st_dev, st.st_ino):
                return p
        return None

    def close(self):
        for p in self.all:
            for fd in (p.fd, p.other):
                if fd is not None:
                    try:
                        os.close(fd)
                    except OSError:
                        pass
            p.fd = p.other = None


class FdClient(client.Client):
    """client.Client that additionally records, for every recvmsg that carried descriptors, the range of
    stream offsets of the data it returned, so that 'the descriptors came with the first byte of the
    message that announces them' can be checked; owns (and finally closes) every descriptor received."""

    def __init__(self, *a, **kw):
        client.Client.__init__(self, *a, **kw)
        self.rx_off = 0          # stream offset of the next byte to be received
        self.fd_arrivals = []    # (start offset, end offset, number of descriptors)
        self.all_fds = []
        self.anomalies = []      # (class, text)

    def _fill(self, deadline):
        nb, nf = len(self.buf), len(self.fdbuf)
        try:
            client.Client._fill(self, deadline)
        finally:
            got = len(self.buf) - nb
            newf = self.fdbuf[nf:]
            if newf:
                self.all_fds += newf
                self.fd_arrivals.append((self.rx_off, self.rx_off + got, len(newf)))
            self.rx_off += got

    def _try_pop(self):
        start = self.rx_off - len(self.buf)     # stream offset of the first unframed byte
        rec = client.Client._try_pop(self)
        if rec is None:
            return None
        announced = rec.msg.known().get(9, 0)
        if announced != len(rec.fds):
            self.anomalies.append(("header-count-mismatch",
                                   "message announces %d descriptors, %d were available with it" % (announced, len(rec.fds))))
        if rec.fds:
            ok = False
            for (s, e, n) in self.fd_arrivals:
                if s <= start < e and n == len(rec.fds):
                    ok = True
                    break
            if not ok:
                self.anomalies.append(("fd-misaligned",
                                       "descriptors of the message at stream offset %d did not arrive with its first byte "
                                       "(arrivals %r)" % (start, self.fd_arrivals[-4:])))
        return rec

    def stray_fds(self):
        """descriptors received that no framed message accounted for"""
        return list(self.fdbuf)

    def close(self):
        if not self.closed:
            for fd in self.all_fds:
                try:
                    os.close(fd)
                except OSError:
                    pass
            self.fdbuf = []
            self.all_fds = []
        client.Client.close(self)


def connect(path, clock=None, negotiate_fd=False, label=None):
    c = FdClient(path, clock, None, None, label)
    try:
        c.auth(negotiate_fd=negotiate_fd)
        c.hello()
    except BaseException:
        c.close()
        raise
    return c


def self_fd_count():
    return len(os.listdir("/proc/self/fd"))
