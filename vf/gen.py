"""Seeded generators: signatures, values, names, messages and structure-aware corruptions."""
import random
import struct

from . import wire
from .wire import Variant, T

BASIC_CODES = b"ybnqiuxtdsogh"
BASIC_NOFD = b"ybnqiuxtdsog"


def rng_for(seed, *parts):
    return random.Random("%s:%s" % (seed, ":".join(str(p) for p in parts)))


# ----------------------------------------------------------------------------- signatures

def rand_type(rng, depth=0, maxdepth=4, fds=False, codes=None):
    """One single complete type as bytes."""
    basics = codes or (BASIC_CODES if fds else BASIC_NOFD)
    r = rng.random()
    if depth >= maxdepth or r < 0.45:
        return bytes([rng.choice(basics)])
    if r < 0.62:
        return b"a" + rand_type(rng, depth + 1, maxdepth, fds, codes)
    if r < 0.74:
        n = rng.choice([1, 1, 2, 2, 3, 5])
        return b"(" + b"".join(rand_type(rng, depth + 1, maxdepth, fds, codes) for _ in range(n)) + b")"
    if r < 0.86:
        return b"a{" + bytes([rng.choice(basics)]) + rand_type(rng, depth + 1, maxdepth, fds, codes) + b"}"
    return b"v"


def rand_signature(rng, maxtypes=4, maxdepth=4, fds=False):
    n = rng.choice([0, 1, 1, 1, 2, 2, 3, maxtypes])
    s = b"".join(rand_type(rng, 0, maxdepth, fds) for _ in range(n))
    return s[:255] if wire.signature_ok(s[:255]) else b"s"


def misnested_signature(rng):
    """A signature whose brackets are balanced in count but closed in the wrong order (or a valid near miss)."""
    inner = rng.choice([b"ii", b"i", b"su", b"ay", b"v"])
    key = bytes([rng.choice(b"sioyu")])
    forms = [b"a{" + key + b"(" + inner + b"})", b"(a{" + key + b"i)}", b"a{" + key + b"(" + inner + b")}",
             b"(a{" + key + b"i})", b"a{" + key + b"a(" + inner + b"})", b"(" + inner + b"a{" + key + b"(" + inner + b"})",
             b"a{" + key + b"((" + inner + b")})", b"((a{" + key + b"i)})", b"a{" + key + b"a{" + key + b"(i}})"]
    s = rng.choice(forms)
    if rng.random() < 0.3:
        s = rng.choice([b"", b"i", b"a"]) + s + rng.choice([b"", b"i", b"s"])
    return s


def deep_signature(rng):
    """Signatures near the nesting limits."""
    k = rng.choice(["a32", "a33", "s32", "s33", "mix", "a32s32", "runs", "dict"])
    if k == "a32":
        return b"a" * 32 + b"y"
    if k == "a33":
        return b"a" * 33 + b"y"
    if k == "s32":
        return b"(" * 32 + b"i" + b")" * 32
    if k == "s33":
        return b"(" * 33 + b"i" + b")" * 33
    if k == "a32s32":
        return b"a" * 32 + b"(" * 32 + b"i" + b")" * 32
    if k == "runs":   # arrays nested through structs: depth counted across runs
        n = rng.choice([20, 32, 33])
        m = rng.choice([1, 13, 32])
        return b"a" * n + b"(" + b"a" * m + b"y" + b")"
    if k == "dict":
        n = rng.choice([5, 16, 17, 31, 32])
        return b"a{s" * n + b"i" + b"}" * n
    n = rng.randint(1, 16)
    return (b"a(" * n) + b"i" + (b")" * n)


# ----------------------------------------------------------------------------- values

_INTERESTING = {
    1: [0, 1, 0x7F, 0x80, 0xFF],
    2: [0, 1, 0x7FFF, 0x8000, 0xFFFF],
    4: [0, 1, 2, 0x7FFFFFFF, 0x80000000, 0xFFFFFFFF, 1 << 26, 1 << 27],
    8: [0, 1, (1 << 63) - 1, 1 << 63, (1 << 64) - 1, 0x7FF8000000000000, 0xFFF0000000000000,
        0x8000000000000000, 0x7FF0000000000001, 0x3FF0000000000000],
}

_WORDS = [b"", b"a", b"foo", b"hello world", "héllo".encode(), "€".encode(),
          "\U0001F600".encode(), "￾".encode(), "﷐".encode(), b"x" * 7, b"x" * 8, b"y" * 33]


def rand_string(rng, maxlen=40):
    r = rng.random()
    if r < 0.5:
        return rng.choice(_WORDS)
    if r < 0.9:
        n = rng.randint(0, maxlen)
        return bytes(rng.choice(b"abcXYZ019_ /.-") for _ in range(n))
    n = rng.randint(0, 12)
    return "".join(chr(rng.choice([rng.randint(1, 0x7F), rng.randint(0x80, 0x7FF), rng.randint(0x800, 0xD7FF),
                                   rng.randint(0xE000, 0xFFFF), rng.randint(0x10000, 0x10FFFF)]))
                   for _ in range(n)).encode("utf-8")


_EL = [b"a", b"b", b"org", b"freedesktop", b"Foo", b"Bar_1", b"_x", b"A9", b"x" * 20]


def rand_path(rng):
    r = rng.random()
    if r < 0.1:
        return b"/"
    return b"".join(b"/" + rng.choice(_EL + [b"0", b"9a"]) for _ in range(rng.randint(1, 5)))


def rand_interface(rng):
    return b".".join(rng.choice(_EL) for _ in range(rng.randint(2, 5)))


def rand_member(rng):
    return rng.choice([b"Foo", b"Bar", b"x", b"_", b"Get_1", b"M" * 40, b"Ping"])


def rand_wellknown(rng):
    return b".".join(rng.choice(_EL + [b"a-b", b"-"]) for _ in range(rng.randint(2, 4)))


def rand_unique(rng):
    return b":" + b".".join(rng.choice([b"1", b"42", b"0", b"a", b"9z", b"-"]) for _ in range(rng.randint(2, 3)))


def rand_busname(rng):
    return rand_unique(rng) if rng.random() < 0.4 else rand_wellknown(rng)


def rand_value(rng, t, depth=0, budget=None):
    c = t.code
    if budget is None:
        budget = [200]
    budget[0] -= 1
    if c in wire.BASIC_FIXED:
        size = wire.BASIC_FIXED[c][0]
        if c == ord('b'):
            return rng.randint(0, 1)
        if c == ord('h'):
            return rng.randint(0, 3)
        if rng.random() < 0.5:
            return rng.choice(_INTERESTING[size])
        return rng.getrandbits(8 * size)
    if c == ord('s'):
        return rand_string(rng)
    if c == ord('o'):
        return rand_path(rng)
    if c == ord('g'):
        return rng.choice([b"", b"i", b"a{sv}", b"(ii)", b"ay", b"v", b"sss"]) if rng.random() < 0.8 \
            else rand_signature(rng, 3, 3)
    if c == ord('a'):
        if budget[0] <= 0:
            return []
        n = rng.choice([0, 0, 1, 1, 2, 3, 5]) if rng.random() < 0.93 else rng.randint(6, 20)
        if t.sub.code == ord('e'):
            return [rand_value(rng, t.sub, depth + 1, budget) for _ in range(n)]
        return [rand_value(rng, t.sub, depth + 1, budget) for _ in range(n)]
    if c in (ord('r'), ord('e')):
        return tuple(rand_value(rng, m, depth + 1, budget) for m in t.sub)
    if c == ord('v'):
        if depth > 12 or budget[0] <= 0:
            s = bytes([rng.choice(BASIC_NOFD)])
        else:
            s = rand_type(rng, 0, 3)
        ts = wire.parse_signature(s, single=True)
        return Variant(s, rand_value(rng, ts[0], depth + 1, budget))
    raise ValueError(c)


def rand_body(rng, fds=False, maxdepth=4):
    sig = rand_signature(rng, 5, maxdepth, fds)
    ts = wire.parse_signature(sig)
    budget = [300]
    return sig, [rand_value(rng, t, 0, budget) for t in ts]


def nested_variant_value(n):
    """A value with exactly n nested containers made of variants: v(v(v(...y)))"""
    v = 7
    sig = b"y"
    for _ in range(n):
        v = Variant(sig, v)
        sig = b"v"
    return sig, v


# ----------------------------------------------------------------------------- messages

def rand_fields(rng, mtype, full=None, extra_unknown=True):
    """Legal header fields for the type (required ones always), random optional ones,
    in random order, optionally with unknown field codes."""
    req = set(wire.REQUIRED.get(mtype, ()))
    fields = {}
    opt_p = 0.5 if full is None else (1.0 if full else 0.0)
    for code in range(1, 8):
        if code in req or rng.random() < opt_p * (0.6 if code not in (wire.F_DESTINATION,) else 1.0):
            if code == wire.F_PATH:
                fields[code] = Variant(b"o", rand_path(rng))
            elif code == wire.F_INTERFACE:
                fields[code] = Variant(b"s", rand_interface(rng))
            elif code == wire.F_MEMBER:
                fields[code] = Variant(b"s", rand_member(rng))
            elif code == wire.F_ERROR_NAME:
                fields[code] = Variant(b"s", rand_interface(rng))
            elif code == wire.F_REPLY_SERIAL:
                fields[code] = Variant(b"u", rng.choice([1, 2, 77, 0xFFFFFFFF, rng.getrandbits(32) or 1]))
            elif code == wire.F_DESTINATION:
                fields[code] = Variant(b"s", rand_busname(rng))
            elif code == wire.F_SENDER:
                fields[code] = Variant(b"s", rand_busname(rng))
    out = list(fields.items())
    if extra_unknown and rng.random() < 0.25:
        for _ in range(rng.randint(1, 3)):
            code = rng.randint(11, 255)
            s = rand_type(rng, 0, 2)
            ts = wire.parse_signature(s, single=True)
            out.append((code, Variant(s, rand_value(rng, ts[0]))))
    rng.shuffle(out)
    return out


def rand_message(rng, fds=False, order=None, mtype=None, maxdepth=4, extra_unknown=True):
    """Returns dict(kwargs for wire.encode_message)."""
    if mtype is None:
        mtype = rng.choice([1, 1, 2, 3, 4, 4, rng.randint(5, 255)]) if rng.random() < 0.97 else rng.randint(1, 255)
    sig, body = rand_body(rng, fds, maxdepth)
    fields = rand_fields(rng, mtype, extra_unknown=extra_unknown)
    flags = rng.choice([0, 0, 1, 2, 3, 4, 7, rng.randint(0, 255)])
    serial = rng.choice([1, 2, 0xFFFFFFFF, rng.getrandbits(32) or 1])
    order = order or rng.choice("lB")
    # place SIGNATURE field at a random position
    if sig:
        fields.insert(rng.randint(0, len(fields)), (wire.F_SIGNATURE, Variant(b"g", sig)))
    elif rng.random() < 0.2:
        fields.insert(rng.randint(0, len(fields)), (wire.F_SIGNATURE, Variant(b"g", b"")))
    return dict(mtype=mtype, fields=fields, body_sig=sig, body=body, serial=serial, flags=flags, order=order)


def encode(msg, want_sites=False):
    return wire.encode_message(msg["mtype"], msg["fields"], msg["body_sig"], msg["body"], msg["serial"],
                               msg["flags"], msg["order"], add_signature=False, want_sites=want_sites)


# ----------------------------------------------------------------------------- corruption

_BAD_UTF8 = [b"\xc0\x80", b"\xc1\xbf", b"\xe0\x80\x80", b"\xe0\x9f\xbf", b"\xed\xa0\x80", b"\xed\xbf\xbf",
             b"\xf0\x80\x80\x80", b"\xf0\x8f\xbf\xbf", b"\xf4\x90\x80\x80", b"\xf5\x80\x80\x80",
             b"\xf8\x88\x80\x80\x80", b"\x80", b"\xbf", b"\xc2", b"\xe2\x82", b"\xf0\x9f\x98", b"\xff", b"\xfe",
             b"\xc2\x41", b"\xe2\x28\xa1", b"\xf0\x28\x8c\xbc"]


def _put32(b, off, v, e):
    struct.pack_into(e + "I", b, off, v & 0xFFFFFFFF)


def corrupt(rng, data, sites):
    """Apply one single-site corruption. Returns (bytes, class-name).  The verdict of the result
    is decided by the oracle from scratch (a corruption may well produce another valid message)."""
    b = bytearray(data)
    e = "<" if data[0:1] == b"l" else ">"
    sites = [x for x in sites if x[1] + max(1, x[2]) <= len(b)]
    if not b:
        return bytes(b), "empty"
    kinds = sorted(set(k for k, _, _ in sites))
    kind = rng.choice(kinds + ["truncate", "trailing", "bitflip", "byteset"])
    if kind == "truncate":
        cut = rng.randint(0, max(0, len(b) - 1))
        return bytes(b[:cut]), "truncate"
    if kind == "trailing":
        return bytes(b) + bytes(rng.getrandbits(8) for _ in range(rng.choice([1, 3, 8, 16, 40]))), "trailing"
    if kind == "bitflip":
        i = rng.randrange(len(b))
        b[i] ^= 1 << rng.randrange(8)
        return bytes(b), "bitflip"
    if kind == "byteset":
        i = rng.randrange(len(b))
        b[i] = rng.choice([0, 1, 0x7F, 0x80, 0xFF, rng.getrandbits(8)])
        return bytes(b), "byteset"
    cands = [s for s in sites if s[0] == kind]
    k, off, size = rng.choice(cands)
    if k in ("strlen", "arrlen", "h_bodylen", "h_fieldslen"):
        cur = struct.unpack_from(e + "I", b, off)[0]
        newv = rng.choice([cur + 1, cur - 1, 0, cur + 4, cur + 8, cur - 4, (1 << 26), (1 << 26) + 1, (1 << 26) - 1,
                           (1 << 27), (1 << 27) + 1, (1 << 27) - 1, 0xFFFFFFFF, 0x80000000, 0x7FFFFFFF,
                           cur ^ 0x01000000, len(b), len(b) - off])
        _put32(b, off, newv, e)
        return bytes(b), k
    if k in ("pad", "h_pad"):
        i = off + rng.randrange(size)
        b[i] = rng.choice([1, 0xFF, 0x20])
        return bytes(b), k
    if k == "bool":
        _put32(b, off, rng.choice([2, 0xFFFFFFFF, 0x100, 0x01000000, 0x80000000, 3]), e)
        return bytes(b), k
    if k == "fixed":
        for i in range(size):
            b[off + i] = rng.getrandbits(8)
        return bytes(b), k
    if k in ("str", "path", "sig", "varsig"):
        if size == 0:
            # cannot corrupt content of an empty string in place; flip the nul after it instead
            b[off] = rng.choice([1, 0x41, 0xFF]) if off < len(b) else 0
            return bytes(b), k + "-empty"
        r = rng.random()
        if k == "str" and r < 0.6:
            bad = rng.choice(_BAD_UTF8)
            if len(bad) <= size:
                p = off + rng.randint(0, size - len(bad))
                b[p:p + len(bad)] = bad
                return bytes(b), "utf8"
        i = off + rng.randrange(size)
        if k == "path":
            b[i] = rng.choice(b"/.-: \x00\x80a_9")
        elif k in ("sig", "varsig"):
            b[i] = rng.choice(b"a(){}vzer\x00iys\x80")
        else:
            b[i] = rng.choice([0, 0x80, 0xFF, 0xC0, 0x41])
        return bytes(b), k
    if k == "nul":
        b[off] = rng.choice([1, 0x41, 0xFF, 0x80])
        return bytes(b), k
    if k in ("siglen", "varsiglen"):
        cur = b[off]
        b[off] = rng.choice([cur + 1, cur - 1, 0, 255, cur + 2]) & 0xFF
        return bytes(b), k
    if k == "fieldcode":
        cur = b[off]
        b[off] = rng.choice([0, rng.randint(1, 10), rng.randint(11, 255), cur ^ 1])
        return bytes(b), k
    if k == "h_order":
        b[off] = rng.choice([ord('L'), ord('b'), 0, ord('B') if b[off] == ord('l') else ord('l'), 0xFF])
        return bytes(b), k
    if k == "h_type":
        b[off] = rng.choice([0, 1, 2, 3, 4, 5, 255])
        return bytes(b), k
    if k == "h_flags":
        b[off] = rng.getrandbits(8)
        return bytes(b), k
    if k == "h_version":
        b[off] = rng.choice([0, 2, 255, 0x10])
        return bytes(b), k
    if k == "h_serial":
        _put32(b, off, rng.choice([0, 1, 0xFFFFFFFF]), e)
        return bytes(b), k
    i = off + rng.randrange(max(1, size))
    if i < len(b):
        b[i] ^= 0xFF
    return bytes(b), k


def structural_variant(rng, msg):
    """Return (msgdict', class) with one field-level structural change: duplicate / missing / extra /
    wrong-typed field, body without signature, reserved names and near-misses."""
    m = dict(msg)
    fields = list(m["fields"])
    k = rng.choice(["dup", "missing", "wrongtype", "local", "local-near", "nosig", "badname", "code0",
                    "container-instance", "unix-fds", "reply0"])
    if k == "dup" and fields:
        f = rng.choice(fields)
        fields.insert(rng.randint(0, len(fields)), f)
    elif k == "missing" and fields:
        fields.pop(rng.randrange(len(fields)))
    elif k == "wrongtype" and fields:
        i = rng.randrange(len(fields))
        code, v = fields[i]
        s = rng.choice([b"u", b"s", b"o", b"g", b"i", b"y", b"as", b"v"])
        ts = wire.parse_signature(s, single=True)
        fields[i] = (code, Variant(s, rand_value(rng, ts[0])))
    elif k == "local":
        which = rng.choice([1, 2])
        fields = [(c, v) for c, v in fields if c != which]
        fields.append((which, Variant(b"o", wire.LOCAL_PATH) if which == 1 else Variant(b"s", wire.LOCAL_IFACE)))
    elif k == "local-near":
        which = rng.choice([1, 2])
        fields = [(c, v) for c, v in fields if c != which]
        if which == 1:
            p = rng.choice([wire.LOCAL_PATH + b"X", wire.LOCAL_PATH + b"/x", wire.LOCAL_PATH[:-1], b"/org/freedesktop/DBus/Loca"])
            fields.append((1, Variant(b"o", p)))
        else:
            n = rng.choice([wire.LOCAL_IFACE + b"host", wire.LOCAL_IFACE + b".x", wire.LOCAL_IFACE[:-1]])
            fields.append((2, Variant(b"s", n)))
    elif k == "nosig":
        fields = [(c, v) for c, v in fields if c != wire.F_SIGNATURE]
    elif k == "badname":
        code = rng.choice([2, 3, 4, 6, 7])
        bad = rng.choice([b"", b"a", b".a.b", b"a..b", b"a.b.", b"1a.b", b"a.1b", b"a-b.c", b"a b.c", b":", b":x", b":1",
                          b":1.", b"a." + b"b" * 254, b"a." + b"b" * 253, b"x" * 255, b"x" * 256, b"a.b\xc3\xa9", b":1.-", b"-a.b",
                          b"a.b-", b"org.freedesktop.DBus", b":1.2.3"])
        fields = [(c, v) for c, v in fields if c != code]
        fields.append((code, Variant(b"s", bad)))
    elif k == "code0":
        fields.insert(rng.randint(0, len(fields)), (0, Variant(b"s", b"x")))
    elif k == "container-instance":
        fields.append((10, rng.choice([Variant(b"o", b"/c/1"), Variant(b"s", b"x"), Variant(b"u", 1)])))
    elif k == "unix-fds":
        fields.append((9, Variant(b"u", rng.choice([0, 1, 2, 0xFFFFFFFF]))))
    elif k == "reply0":
        fields = [(c, v) for c, v in fields if c != 5]
        fields.append((5, Variant(b"u", 0)))
    m["fields"] = fields
    return m, "field-" + k
