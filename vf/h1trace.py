"""Reader for the state dump the H1 verification hook appends to $DBUS_VERIF_TRACE after every dispatch.

    S <seq>
    N <name> <unique>/<allow_replacement>/<do_not_queue> ...
    T completed=<n> incomplete=<n>
    C <unique> names=<n> rules=<n> pending=<n> monitor=<0|1>
    P <caller unique> <callee unique> <serial>
    E <seq>

The reply to a client is sent before the block of that dispatch is written: call last_block() only after one further
driver round-trip; the LAST COMPLETE block (matching S/E sequence numbers) is returned.  The file may be truncated at
any time (the daemon re-opens it in append mode for every block); a torn fragment is never taken for a block.
"""
import os


class Block(object):
    __slots__ = ("seq", "names", "completed", "incomplete", "conns", "pending")

    def __init__(self, seq):
        self.seq = seq
        self.names = {}        # name -> [(unique, allow_replacement, do_not_queue)]
        self.completed = None
        self.incomplete = None
        self.conns = {}        # unique -> {"names": n, "rules": n, "pending": n, "monitor": n}
        self.pending = []      # (caller, callee, serial) with repetitions, bytes/bytes/int


def last_block(path, tail=131072):
    try:
        with open(path, "rb") as fh:
            size = os.path.getsize(path)
            fh.seek(max(0, size - tail))
            text = fh.read().decode("latin1")
    except OSError:
        return None
    lines = text.split("\n")
    end = None
    for i in range(len(lines) - 1, -1, -1):
        ln = lines[i]
        if end is None:
            if ln.startswith("E ") and ln[2:].isdigit() and i < len(lines) - 1:
                end = i
            continue
        if ln.startswith("E "):
            # reached the previous block without finding our S line: the candidate was torn, try this one
            end = i
            continue
        if ln.startswith("S ") and ln[2:] == lines[end][2:]:
            return _parse(lines[i + 1:end], int(ln[2:]))
    return None


def _parse(lines, seq):
    b = Block(seq)
    try:
        for ln in lines:
            p = ln.split()
            if not p:
                continue
            if p[0] == "N":
                b.names[p[1].encode("latin1")] = [(e.split("/")[0].encode("latin1"), e.split("/")[1] == "1", e.split("/")[2] == "1")
                                                  for e in p[2:]]
            elif p[0] == "T":
                kv = dict(x.split("=") for x in p[1:])
                b.completed, b.incomplete = int(kv["completed"]), int(kv["incomplete"])
            elif p[0] == "C":
                kv = dict(x.split("=") for x in p[2:])
                b.conns[p[1].encode("latin1")] = {k: int(v) for k, v in kv.items()}
            elif p[0] == "P":
                b.pending.append((p[1].encode("latin1"), p[2].encode("latin1"), int(p[3])))
    except (ValueError, IndexError, KeyError):
        return None
    if b.completed is None:
        return None
    return b
