"""Run a line-oriented C harness over a batch of cases, surviving crashes.

run_cases(exe, lines) -> list with one entry per input line: parsed JSON object, or
{"crash": {...}} when the process died / printed a sanitizer report / hung on that case.
"""
import json
import os
import re
import subprocess
import tempfile

SAN_ENV = {
    "ASAN_OPTIONS": "abort_on_error=0:halt_on_error=1:detect_leaks=0:allocator_may_return_null=1:"
                    "max_allocation_size_mb=1024:exitcode=99:symbolize=1",
    "UBSAN_OPTIONS": "print_stacktrace=1:halt_on_error=1:exitcode=98",
    "TSAN_OPTIONS": "halt_on_error=0:exitcode=0:report_signal_unsafe=0",
    "DBUS_VERBOSE": "0",
}

_frame_re = re.compile(r"#\d+ 0x[0-9a-f]+ in (\S+) (\S+)")


def san_env(extra=None, leaks=False):
    env = dict(os.environ)
    env.update(SAN_ENV)
    if leaks:
        env["ASAN_OPTIONS"] = env["ASAN_OPTIONS"].replace("detect_leaks=0", "detect_leaks=1")
    env.pop("DBUS_SESSION_BUS_ADDRESS", None)
    if extra:
        env.update(extra)
    return env


def classify_stderr(text, repo=None):
    """Reduce sanitizer / assertion output to (class, site) with line numbers stripped, or None."""
    if not text:
        return None
    kind = None
    m = re.search(r"ERROR: AddressSanitizer: ([a-zA-Z0-9_-]+)", text)
    if m:
        kind = "asan:" + m.group(1)
    if kind is None:
        m = re.search(r"ERROR: LeakSanitizer", text)
        if m:
            kind = "lsan:leak"
    if kind is None:
        m = re.search(r"runtime error: ([^\n]*)", text)
        if m:
            msg = re.sub(r"0x[0-9a-f]+", "ADDR", m.group(1))
            msg = re.sub(r"-?\d+", "N", msg)
            kind = "ubsan:" + msg[:60].strip().replace(" ", "-")
    if kind is None:
        m = re.search(r"WARNING: ThreadSanitizer: ([a-zA-Z -]+)", text)
        if m:
            kind = "tsan:" + m.group(1).strip().replace(" ", "-")
    if kind is None:
        m = re.search(r'assertion failed "([^"]*)" file "([^"]*)"', text)
        if m:
            kind = "assert:" + os.path.basename(m.group(2)) + ":" + re.sub(r"\s+", "-", m.group(1))[:60]
    if kind is None and "VERIF-INVARIANT" in text:
        m = re.search(r"VERIF-INVARIANT ([^\n]*)", text)
        kind = "invariant:" + re.sub(r"[0-9]+", "N", m.group(1))[:80].strip().replace(" ", "-")
    if kind is None and "should not have been reached" in text:
        kind = "assert:not-reached"
    if kind is None and ("arguments to " in text and "were incorrect" in text):
        m = re.search(r"arguments to (\S+) were incorrect, assertion \"([^\"]*)\"", text)
        kind = "api-check:%s" % (m.group(1) if m else "?")
    if kind is None:
        m = re.search(r"==\d+== (Invalid (?:read|write|free)[^\n]*|Conditional jump or move depends on uninitialised[^\n]*|"
                      r"Use of uninitialised value[^\n]*|Syscall param [^\n]*uninitialised[^\n]*|Mismatched free[^\n]*|"
                      r"Source and destination overlap[^\n]*)", text)
        if m:
            kind = "memcheck:" + re.sub(r"\d+", "N", m.group(1))[:50].strip().replace(" ", "-")
            m2 = re.search(r"==\d+==\s+(?:at|by) 0x[0-9A-F]+: (\S+) \((?:dbus-|bus|signals|driver|dispatch|connection|services|policy|activation|config|utils|expirelist)", text)
            return kind, (m2.group(1) if m2 else "?")
    if kind is None:
        return None
    site = "?"
    for fm in _frame_re.finditer(text):
        fn, loc = fm.group(1), fm.group(2)
        if "/dbus/" in loc or "/bus/" in loc or (repo and repo in loc):
            if "harness" in loc:
                continue
            site = fn
            break
    return kind, site


def run_cases(exe, lines, env=None, per_batch_timeout=120, args=(), wrapper=(), max_crashes=25):
    results = [None] * len(lines)
    start = 0
    crashes = 0
    env = san_env(env)
    while start < len(lines):
        batch = lines[start:]
        data = ("\n".join(batch) + "\n").encode()
        with tempfile.TemporaryFile() as errf:
            try:
                p = subprocess.run(list(wrapper) + [exe] + list(args), input=data, stdout=subprocess.PIPE,
                                   stderr=errf, env=env, timeout=per_batch_timeout)
                out, rc, timed_out = p.stdout, p.returncode, False
            except subprocess.TimeoutExpired as te:
                out, rc, timed_out = te.stdout or b"", -999, True
            errf.seek(0)
            err = errf.read().decode("latin1")
        outs = out.decode("latin1").split("\n")
        n_ok = 0
        for ln in outs:
            if not ln:
                continue
            try:
                obj = json.loads(ln)
            except ValueError:
                break
            if start + n_ok >= len(lines):
                break
            results[start + n_ok] = obj
            n_ok += 1
        if n_ok == len(batch) and rc == 0 and not timed_out:
            cls = classify_stderr(err)
            if cls and cls[0].startswith(("tsan", "lsan")):
                # reports that do not stop the process: attach to the batch as a whole
                results.append({"batch_report": {"class": cls, "stderr": err[-6000:]}})
            break
        # the case after the last complete output line is the culprit
        bad = start + n_ok
        if bad >= len(lines):
            # died at exit (e.g. leak report or shutdown problem)
            results.append({"batch_report": {"class": classify_stderr(err) or ("exit:%d" % rc, "?"), "stderr": err[-6000:],
                                             "rc": rc}})
            break
        results[bad] = {"crash": {"rc": rc, "timeout": timed_out, "class": classify_stderr(err),
                                  "stderr": err[-6000:]}}
        start = bad + 1
        crashes += 1
        if crashes >= max_crashes:
            break   # remaining entries stay None (callers report them as inconclusive)
    return results
