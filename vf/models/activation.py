"""Reference models for C19.

1. Helper model - when may / must dbus-daemon-launch-helper execute the program of a service file.
   Written from the property statement and the specification ("Message Bus Starting Services": a service
   description file has a [D-BUS Service] group with Name and Exec; system-bus files also need User; on the
   system bus the file is called <name>.service), never from bus/activation-helper.c:

     may_exec  = the argument is a syntactically valid bus name AND some <servicedir> contains a service file
                 that declares exactly that Name together with an Exec line and a User   (weakest reading:
                 any directory, any quoting) - an execution without may_exec violates the property
     must_exec = may_exec AND the configuration names the bus user AND the FIRST directory (in configuration
                 order) that has <name>.service at all holds a plainly well-formed file declaring Name == name,
                 a plainly quoted Exec of an existing executable and a User   (strongest reading: no reliance
                 on how duplicates, unloadable files or exotic quoting are resolved)
   Everything between the two is unspecified and not judged.

2. Daemon-side judgement helpers: delivery order against a partial order of sends, start log against the bus's
   own activation log.
"""
from .. import wire

# classes of generated service files: (declares Name==name, has Exec, has User, plainly well-formed & first-choice safe)
FILE_CLASSES = {
    #                      name   exec   user   strict
    "good":               (True,  True,  True,  True),
    "good-variant":       (True,  True,  True,  True),     # comments, blank lines, key order, unknown keys, second group
    "good-dquote":        (True,  True,  True,  True),     # Exec="stub" "marker"
    "good-squote":        (True,  True,  True,  True),     # Exec='stub' 'marker'
    "odd-quoting":        (True,  True,  True,  False),    # Exec present, quoting exotic or broken
    "relative-exec":      (True,  True,  True,  False),
    "spaces-around-eq":   (True,  True,  True,  False),
    "name-mismatch":      (False, True,  True,  False),
    "no-name":            (False, True,  True,  False),
    "no-exec":            (True,  False, True,  False),
    "no-user":            (True,  True,  False, False),
    "wrong-group":        (False, False, False, False),    # all keys, but under another group header
    "commented-out":      (False, True,  True,  False),    # '#Name=...'
    "broken":             (False, False, False, False),    # not a key file at all
}


def helper_verdict(name_arg, dirs, config_has_user):
    """dirs: list (configuration order) of None (no <name>.service there) or a file class string.
    Returns (may_exec, must_exec, reason) - reason is a short stable class for keys/signatures."""
    why = wire.bus_name_reason(name_arg)
    if why is not None:
        return False, False, "invalid-name:" + why
    present = [c for c in dirs if c is not None]
    if not present:
        return False, False, "no-service-file"
    may = any(FILE_CLASSES[c][0] and FILE_CLASSES[c][1] and FILE_CLASSES[c][2] for c in present)
    first = present[0]
    must = may and config_has_user and FILE_CLASSES[first][3]
    if not may:
        return False, False, "file:" + first
    return True, must, ("first-file:" + first) if must else ("unspecified:" + first)


# ---------------------------------------------------------------------------------- daemon side
def order_violations(arrivals, sent):
    """arrivals: list of (sender, serial) in the order the service saw them.
    sent: dict (sender, serial) -> (epoch, per-sender sequence number).
    Returns pairs (earlier arrival, later arrival) that contradict the partial order
    a < b  iff  epoch(a) < epoch(b)  or  (same sender and seq(a) < seq(b))."""
    bad = []
    known = [(k, sent[k]) for k in arrivals if k in sent]
    for i in range(len(known)):
        ka, (ea, sa) = known[i]
        for j in range(i + 1, len(known)):
            kb, (eb, sb) = known[j]
            # b arrived after a; contradiction if b must precede a
            if eb < ea or (kb[0] == ka[0] and sb < sa):
                bad.append((ka, kb))
    return bad


def start_log_problems(name, n_stub_starts, bus_log_lines, n_errors_seen):
    """bus_log_lines: the bus's own log (stderr) in order.  Returns a list of (class, text)."""
    out = []
    act = "Activating service name='%s'" % name
    ok = "Successfully activated service '%s'" % name
    fail1 = "Activated service '%s' failed" % name
    fail2 = "Failed to activate service '%s'" % name
    fail3 = "Failed to activate service %s:" % name
    open_ = False
    n_act = 0
    for ln in bus_log_lines:
        if act in ln:
            n_act += 1
            if open_:
                out.append(("started-again-while-pending", "the bus logged a second start of %s before the first activation "
                            "had succeeded or failed" % name))
            open_ = True
        elif ok in ln or fail1 in ln or fail2 in ln or fail3 in ln:
            open_ = False
    if n_stub_starts > n_act:
        out.append(("more-processes-than-activations", "%d processes started for %s, the bus logged %d activations"
                    % (n_stub_starts, name, n_act)))
    if n_stub_starts > 1 + n_errors_seen:
        out.append(("more-starts-than-failures-allow", "%d processes started for %s although waiting callers saw only %d errors "
                    "(a new activation can begin only after the previous one failed)" % (n_stub_starts, name, n_errors_seen)))
    return out
