"""Reference model for C15: what may happen to descriptors a connection sends through the bus.

Written from the protocol description (specification: UNIX_FDS header field, NEGOTIATE_UNIX_FD; dbus-daemon(1):
max_message_unix_fds, max_incoming_unix_fds, pending_fd_timeout, min_fds/max_fds policy attributes) and from
SCM_RIGHTS stream semantics: descriptors travel in stream order, so each connection has a FIFO of descriptors
received by the bus and not yet claimed by a message; a message announcing h descriptors claims the first h.

Outcome classes (stable strings, used in violation keys and evidence signatures):
  deliver            unicast reaches the addressed connection with exactly the claimed descriptors
  broadcast          signal without destination reaches every connection holding the match rule that may take it
  driver             message for org.freedesktop.DBus itself (descriptors must simply be closed)
  refuse:<why>       not delivered; a method call that expects a reply gets an error
                     why = no-such-name | policy | recipient-not-negotiated
  disconnect:<why>   the sending connection is dropped by the bus
                     why = too-many-fds | missing-fds | oversized | malformed
  ambiguous          timing decides between two of the above (only generic invariants are judged)
"""

BUS = b"org.freedesktop.DBus"


class Conn(object):
    def __init__(self, unique, negotiated):
        self.unique = unique
        self.negotiated = negotiated
        self.names = set()
        self.match = False       # holds the broadcast match rule
        self.q = []              # descriptors the bus holds for this connection, unclaimed (FIFO)
        self.alive = True
        self.partial = None      # a message whose first part was written but not the rest
        self.stalled = False     # does not read its socket
        self.inflight = []       # (sender unique, serial, [descriptors], type, optional) accepted while not reading
        self.uncertain = []      # descriptors whose fate is timing-dependent


class Outcome(object):
    def __init__(self, kind, why=None, recipients=(), fds=()):
        self.kind = kind
        self.why = why
        self.recipients = list(recipients)
        self.fds = list(fds)

    @property
    def cls(self):
        return self.kind if not self.why else "%s:%s" % (self.kind, self.why)

    def __repr__(self):
        return "<%s to=%r fds=%r>" % (self.cls, [c.unique for c in self.recipients], self.fds)


class Model(object):
    def __init__(self, max_message_fds, max_message_size, deny_min_fds):
        self.M = max_message_fds
        self.max_size = max_message_size
        self.deny = dict(deny_min_fds)     # well-known name -> min_fds of the deny rule on send_destination
        self.conns = {}

    def add(self, unique, negotiated):
        c = Conn(unique, negotiated)
        self.conns[unique] = c
        return c

    def drop(self, unique):
        c = self.conns.pop(unique, None)
        if c is not None:
            c.alive = False
            c.q = []
            c.inflight = []
            c.uncertain = []
            c.names = set()
        return c

    def owner(self, name):
        if name in self.conns:
            return self.conns[name]
        for c in self.conns.values():
            if name in c.names:
                return c
        return None

    def denied(self, r, h):
        return any(n in r.names and h >= min_fds for n, min_fds in self.deny.items())

    # ---------------------------------------------------------------- descriptors entering the bus
    def absorb(self, conn, fds, first_byte=True):
        """conn wrote bytes with `fds` attached.  Returns None, 'disconnect:too-many-fds' or 'ambiguous'."""
        if not fds:
            return None
        if not conn.negotiated:
            return None            # the bus does not ask the kernel for descriptors on such a connection
        if not first_byte and conn.q:
            # descriptors in the middle of a message while others are pending: whether the bus sees them
            # depends on how its reads line up with our writes
            conn.uncertain += list(fds)
            return "ambiguous"
        if len(fds) > self.M - len(conn.q):
            return "disconnect:too-many-fds"
        conn.q += list(fds)
        return None

    # ---------------------------------------------------------------- a complete message
    def route(self, conn, mtype, dest, h, size, malformed=False, requested_reply=False, rx_denied=False):
        """The last byte of a message of `size` bytes announcing h descriptors arrived from conn.
        requested_reply: the message is the expected reply to a pending call (dbus-daemon(1): a <deny> rule
        without send_requested_reply="true" matches replies only when they were not requested).
        rx_denied: the message's interface is the one a <deny receive_interface=... min_fds="1"/> rule names: every
        recipient's RECEIVE policy refuses it when it carries a descriptor (the sender's send rules allow it)."""
        h = h or 0
        if size > self.max_size:
            return Outcome("disconnect", "oversized")
        if malformed:
            return Outcome("disconnect", "malformed")
        if h > len(conn.q):
            return Outcome("disconnect", "missing-fds")
        fds = conn.q[:h]
        conn.q = conn.q[h:]
        if dest == BUS:
            return Outcome("driver", fds=fds)
        if dest is None:
            if mtype != 4:
                return Outcome("driver", fds=fds)     # for the bus itself / nobody
            # the send policy is evaluated once per proposed recipient (a <deny send_destination=N .../> rule
            # applies to every message that would reach a connection owning N)
            rec = [c for c in self.conns.values() if c.alive and c.match and (h == 0 or c.negotiated)
                   and not self.denied(c, h) and not (rx_denied and h >= 1)]
            return Outcome("broadcast", recipients=rec, fds=fds)
        r = self.owner(dest)
        if r is None:
            return Outcome("refuse", "no-such-name", fds=fds)
        if not requested_reply and self.denied(r, h):
            return Outcome("refuse", "policy", fds=fds)
        if not requested_reply and rx_denied and h >= 1:
            return Outcome("refuse", "policy", fds=fds)
        if h > 0 and not r.negotiated:
            return Outcome("refuse", "recipient-not-negotiated", fds=fds)
        return Outcome("deliver", recipients=[r], fds=fds)

    # ---------------------------------------------------------------- what the bus may hold right now
    def allowed_held(self):
        """(must_or_may, may): descriptors the bus may legitimately have open at a quiescent point:
        unclaimed ones of live connections (at most max_message_unix_fds each), those of messages queued
        for a connection that is not reading, and timing-dependent ones."""
        allowed = []
        for c in self.conns.values():
            allowed += c.q
            allowed += c.uncertain
            for x in c.inflight:
                allowed += x[2]
        return allowed
