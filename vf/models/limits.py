"""Reference model for property C13: plain counters over the resources that dbus-daemon(1) lets a <limit> bound.

The counters are driven by the same operations the test issues, through the existing reference models
(names.py for ownership queues, pending.py for reply slots) plus two trivial tables (connections by uid, match
rules by connection).  What counts, per the documentation:

  max_completed_connections       connections that have completed Hello
  max_connections_per_user        the same, per Unix uid of the peer
  max_incomplete_connections      connections the bus has accepted that have not completed Hello yet
  max_names_per_connection        "names a single connection can own": its unique name plus every well-known name it
                                  is the primary owner of or is queued for (spec: a connection in the queue keeps
                                  its claim; the repository's own test says "the unique name is a name too")
  max_match_rules_per_connection  rules added and not yet removed (the same text added twice is two rules)
  max_replies_per_connection      open reply slots of a caller (pending.py)
  max_message_size                total length of one message on the wire (header + padding + body)

A verdict is one of
  ALLOW    the request is made below the limit: the limit must not be the reason for a failure
  REFUSE   the request would take the counter above the limit: it must fail with LimitsExceeded (or, for a
           connection, not be accepted) and change nothing
  UNJUDGED the counter is AT the limit but the request would not raise it (re-requesting a name already held or
           queued for, a request that ends as "exists"): the statement of the property covers neither "would
           exceed" nor "below the limit", so either answer is accepted, but a refusal must still change nothing
"""
from . import names as nm
from . import pending as pm

ALLOW, REFUSE, UNJUDGED = "allow", "refuse", "unjudged"

KINDS = ("max_completed_connections", "max_connections_per_user", "max_incomplete_connections",
         "max_names_per_connection", "max_match_rules_per_connection", "max_replies_per_connection",
         "max_message_size")


class Limits(object):
    def __init__(self, cfg):
        self.cfg = dict(cfg)
        self.uid = {}            # unique name -> uid, completed connections only
        self.rules = {}          # unique name -> list of rule ids (with repetitions)
        self.names = nm.Names()
        self.pending = pm.Pending(self.cfg["max_replies_per_connection"], None)
        self.incomplete = 0      # connections we hold open that have not completed Hello

    # -- connections --------------------------------------------------------------------------------
    def completed(self):
        return len(self.uid)

    def per_user(self, uid):
        return sum(1 for u in self.uid.values() if u == uid)

    def hello_verdict(self, uid):
        """-> (verdict, name of the limit that refuses or None)"""
        if self.completed() >= self.cfg["max_completed_connections"]:
            return REFUSE, "max_completed_connections"
        if self.per_user(uid) >= self.cfg["max_connections_per_user"]:
            return REFUSE, "max_connections_per_user"
        return ALLOW, None

    def hello(self, unique, uid):
        self.uid[unique] = uid
        self.rules[unique] = []
        self.names.hello(unique)

    def disconnect(self, unique):
        """-> (reply slots whose caller is owed a NoReply, dropped slots)"""
        self.uid.pop(unique, None)
        self.rules.pop(unique, None)
        self.names.disconnect(unique)
        return self.pending.disconnect(unique)

    # -- names ------------------------------------------------------------------------------------------
    def names_count(self, unique):
        return 1 + len(self.names.names_of(unique))

    def request_verdict(self, unique, name, flags):
        """-> (verdict, would_add, predicted model after an accepted request, reply code, decision row)"""
        after = self.names.clone()
        code, _ev, row = after.request(unique, name, flags)
        was_in = unique in self.names.queue(name)
        is_in = unique in after.queue(name)
        would_add = is_in and not was_in
        if self.names_count(unique) >= self.cfg["max_names_per_connection"]:
            return (REFUSE if would_add else UNJUDGED), would_add, after, code, row
        return ALLOW, would_add, after, code, row

    # -- match rules ----------------------------------------------------------------------------------------
    def rules_count(self, unique):
        return len(self.rules.get(unique, ()))

    def add_rule_verdict(self, unique):
        return REFUSE if self.rules_count(unique) >= self.cfg["max_match_rules_per_connection"] else ALLOW

    # -- reply slots ------------------------------------------------------------------------------------------
    def replies_count(self, unique):
        return self.pending.count(unique)

    def call_verdict(self, caller):
        return REFUSE if self.replies_count(caller) >= self.cfg["max_replies_per_connection"] else ALLOW

    # -- message size --------------------------------------------------------------------------------------------
    def size_verdict(self, total_length):
        return REFUSE if total_length > self.cfg["max_message_size"] else ALLOW

    # -- invariant ---------------------------------------------------------------------------------------------------
    def exceeded(self):
        """Counters of the MODEL that are above their limit (cannot happen unless the bus accepted what it had to refuse
        and the check adopted the observation)."""
        out = []
        if self.completed() > self.cfg["max_completed_connections"]:
            out.append(("max_completed_connections", self.completed()))
        for uid in set(self.uid.values()):
            if self.per_user(uid) > self.cfg["max_connections_per_user"]:
                out.append(("max_connections_per_user", self.per_user(uid)))
        for u in self.uid:
            if self.names_count(u) > self.cfg["max_names_per_connection"]:
                out.append(("max_names_per_connection", self.names_count(u)))
            if self.rules_count(u) > self.cfg["max_match_rules_per_connection"]:
                out.append(("max_match_rules_per_connection", self.rules_count(u)))
            if self.replies_count(u) > self.cfg["max_replies_per_connection"]:
                out.append(("max_replies_per_connection", self.replies_count(u)))
        return out
