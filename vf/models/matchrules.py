"""Reference model of match rules, transcribed from the 'Match Rules' section of the specification.

parse(text) -> Rule | raises RuleError(kind)  where kind is "invalid:<class>" or "unspecified:<class>".
Rule.matches(msg_view, owners) implements the per-key semantics.

Points on which the specification is silent and which are therefore reported as 'unspecified'
(the check does not judge AddMatch's verdict on them and never relies on them for delivery):
  whitespace outside quotes, empty rule text, empty key/value pairs (',,' or trailing ','),
  a key given twice, rule text longer than 1024 bytes, more than 16 keys (implementation limit that
  the bus may enforce by rejecting), well-known names as 'destination', keys 'argN' with leading zeros.
"""
from .. import wire

TYPES = {b"signal": 4, b"method_call": 1, b"method_return": 2, b"error": 3}
MAX_KEYS = 16


class RuleError(Exception):
    def __init__(self, kind):
        Exception.__init__(self, kind)
        self.kind = kind


def tokenize(text):
    """-> list of (key, value) following the quoting rules of the specification."""
    pairs = []
    i, n = 0, len(text)
    if n == 0:
        raise RuleError("unspecified:empty-rule")
    while i < n:
        j = text.find(b"=", i)
        key = text[i:j if j >= 0 else n]
        if b"," in key or j < 0:
            # a pair without '=': empty pairs are unspecified, anything else is malformed
            k = key.split(b",")[0] if b"," in key else key
            if k.strip(b" \t") == b"":
                raise RuleError("unspecified:empty-pair")
            raise RuleError("invalid:missing-equals")
        if key.strip(b" \t") != key or b" " in key or b"\t" in key:
            raise RuleError("unspecified:whitespace")
        if key == b"":
            raise RuleError("unspecified:empty-key")
        i = j + 1
        val = bytearray()
        quoted = False
        while i < n:
            c = text[i:i + 1]
            if quoted:
                if c == b"'":
                    quoted = False
                else:
                    val += c
                i += 1
            else:
                if c == b"'":
                    quoted = True
                    i += 1
                elif c == b"\\":
                    if text[i + 1:i + 2] == b"'":
                        val += b"'"
                        i += 2
                    else:
                        val += b"\\"
                        i += 1
                elif c == b",":
                    break
                elif c in (b" ", b"\t"):
                    raise RuleError("unspecified:whitespace")
                else:
                    val += c
                    i += 1
        if quoted:
            raise RuleError("invalid:unterminated-quote")
        pairs.append((bytes(key), bytes(val)))
        if i < n:          # at a comma
            i += 1
            if i == n:
                raise RuleError("unspecified:trailing-comma")
    return pairs


class Rule(object):
    def __init__(self, pairs):
        self.d = dict(pairs)
        # eavesdrop='false' "restores the default behaviour", i.e. means the same as leaving the key out
        self.key = frozenset((k, v) for k, v in self.d.items() if not (k == b"eavesdrop" and v == b"false"))
        self.eavesdrop = self.d.get(b"eavesdrop") == b"true"

    def __repr__(self):
        return "Rule(%r)" % (sorted(self.d.items()),)

    def equal_key(self):
        """equality for RemoveMatch: same keys and values (eavesdrop='false' == key absent)."""
        return self.key

    def matches(self, mv, owners):
        """mv: dict(type, sender(unique), interface, member, path, destination, args=[(typecode, value)]).
        owners: name -> unique name of current primary owner."""
        d = self.d
        if mv["destination"] is not None and not self.eavesdrop:
            return False
        for k, v in d.items():
            if k == b"type":
                if mv["type"] != TYPES[v]:
                    return False
            elif k == b"sender":
                if v[:1] == b":" or v == b"org.freedesktop.DBus":
                    if mv["sender"] != v:
                        return False
                elif owners.get(v) != mv["sender"] or mv["sender"] is None:
                    return False
            elif k == b"interface":
                if mv["interface"] != v:
                    return False
            elif k == b"member":
                if mv["member"] != v:
                    return False
            elif k == b"path":
                if mv["path"] != v:
                    return False
            elif k == b"path_namespace":
                p = mv["path"]
                if p is None:
                    return False
                if v == b"/":
                    pass
                elif not (p == v or p.startswith(v + b"/")):
                    return False
            elif k == b"destination":
                if mv["destination"] != v:
                    return False
            elif k == b"eavesdrop":
                pass
            elif k == b"arg0namespace":
                a = mv["args"][0] if mv["args"] else None
                if a is None or a[0] != "s":
                    return False
                if not (a[1] == v or a[1].startswith(v + b".")):
                    return False
            elif k.startswith(b"arg") and k.endswith(b"path"):
                idx = int(k[3:-4])
                a = mv["args"][idx] if idx < len(mv["args"]) else None
                if a is None or a[0] not in ("s", "o"):
                    return False
                s = a[1]
                if not (s == v or (v.endswith(b"/") and s.startswith(v)) or (s.endswith(b"/") and v.startswith(s))):
                    return False
            elif k.startswith(b"arg"):
                idx = int(k[3:])
                a = mv["args"][idx] if idx < len(mv["args"]) else None
                if a is None or a[0] != "s" or a[1] != v:
                    return False
        return True


def parse(text):
    if len(text) > 1024:
        raise RuleError("unspecified:longer-than-1024")
    pairs = tokenize(text)
    seen = set()
    for k, v in pairs:
        if k in seen:
            raise RuleError("unspecified:duplicate-key")
        seen.add(k)
    for k, v in pairs:
        if k == b"type":
            if v not in TYPES:
                raise RuleError("invalid:bad-type-value")
        elif k == b"sender":
            if wire.bus_name_reason(v) is not None:
                if v[:1] == b":" and wire.bus_name_reason(v).startswith("unique-no") or (v[:1] == b":" and wire.bus_name_reason(v) == "unique-empty-element"):
                    raise RuleError("unspecified:lenient-unique-name")   # C16 known deviation, judged there
                raise RuleError("invalid:bad-sender")
        elif k == b"interface":
            if wire.interface_reason(v) is not None:
                raise RuleError("invalid:bad-interface")
        elif k == b"member":
            if wire.member_reason(v) is not None:
                raise RuleError("invalid:bad-member")
        elif k in (b"path", b"path_namespace"):
            if wire.path_reason(v) is not None:
                raise RuleError("invalid:bad-path")
        elif k == b"destination":
            if wire.bus_name_reason(v) is not None:
                if v[:1] == b":":
                    raise RuleError("unspecified:lenient-unique-name")
                raise RuleError("invalid:bad-destination")
            if v[:1] != b":":
                raise RuleError("unspecified:well-known-destination")
        elif k == b"eavesdrop":
            if v not in (b"true", b"false"):
                raise RuleError("invalid:bad-eavesdrop-value")
        elif k == b"arg0namespace":
            # like a bus name, except that a '.' is not required
            r = wire._elements_reason(v, b".", True, False) if v else "empty"
            if r is not None or len(v) > 255:
                raise RuleError("invalid:bad-arg0namespace")
        elif k.startswith(b"arg"):
            body = k[3:]
            if body.endswith(b"path"):
                body = body[:-4]
            elif body.endswith(b"namespace"):
                # argNnamespace only exists for N = 0
                raise RuleError("invalid:argNnamespace-N-not-0")
            if not body.isdigit():
                raise RuleError("invalid:unknown-key")
            if len(body) > 1 and body[:1] == b"0":
                raise RuleError("unspecified:arg-leading-zero")
            if int(body) > 63:
                raise RuleError("invalid:arg-index-over-63")
            if not wire.valid_utf8(v):
                raise RuleError("unspecified:arg-value-not-utf8")
        else:
            raise RuleError("invalid:unknown-key")
    if b"path" in seen and b"path_namespace" in seen:
        raise RuleError("invalid:path-and-path_namespace")
    if len(pairs) > MAX_KEYS:
        raise RuleError("unspecified:more-than-16-keys")
    return Rule(pairs)


def quote(rng, v):
    """A textual form of value v under the specification's quoting rules (random style)."""
    style = rng.choice(["q", "q", "q", "bare", "mixed"])
    if style == "bare" and v and not any(c in v for c in b"', \t") :
        return v          # backslashes represent themselves outside quotes unless followed by '
    out = bytearray()
    if style == "mixed" and len(v) > 1 and all(c < 0x80 for c in v) and b"'" not in v and b"," not in v and b" " not in v and b"\t" not in v and b"\\" not in v:
        k = rng.randint(1, len(v) - 1)
        return v[:k] + b"'" + v[k:] + b"'"
    out += b"'"
    for c in v:
        if c == 0x27:
            out += b"'\\''"
        else:
            out.append(c)
    out += b"'"
    return bytes(out)
