"""Reference model of monitor connections, transcribed from the BecomeMonitor section of the
specification (doc/dbus-specification.xml, 'org.freedesktop.DBus.Monitoring.BecomeMonitor') and from
the statement of property C18.

  * a monitor's filter is a list of match rules, every one of which behaves as if it contained
    eavesdrop='true'; the empty list is shorthand for "match every message";
  * a monitor owns no names (not even its unique name), holds none of its former match rules, is never
    the addressee of a delivery and must not send;
  * it receives exactly one copy of every message the bus processes that matches the filter, with the
    true sender (the unique name of the sending connection, org.freedesktop.DBus for messages the bus
    generates itself).

The model is a set of small pure helpers: Filter (match semantics), view_of (message -> the view the
match-rule model reads), stream_key (identity under which a copy in a monitor's stream is looked up) and
Expect (required / optional multiset with an exactly-once comparison).
"""
import collections
import re

from . import matchrules as mr

BUS = b"org.freedesktop.DBus"
NOT_ACTIVE = b":not.active.yet"
NAME_SIGNALS = (b"NameOwnerChanged", b"NameLost", b"NameAcquired")


class Filter(object):
    """A monitor's filter: rule texts as passed to BecomeMonitor (already free of placeholders)."""

    def __init__(self, texts):
        self.texts = [bytes(t) for t in texts]
        self.rules = []
        self.rest = []          # the same rule without its destination key (None when it has none)
        for t in self.texts:
            try:
                d = mr.parse(t).d
            except mr.RuleError as e:
                # matchrules.parse() does not judge AddMatch of a well-known destination; for a monitor's filter
                # the key is compared with the text of the DESTINATION header field (see verdict())
                if e.kind != "unspecified:well-known-destination":
                    raise
                d = dict(mr.tokenize(t))
            pairs = [(k, v) for k, v in d.items() if k != b"eavesdrop"] + [(b"eavesdrop", b"true")]
            self.rules.append(mr.Rule(pairs))
            self.rest.append(mr.Rule([kv for kv in pairs if kv[0] != b"destination"]) if b"destination" in d else None)

    def empty(self):
        return not self.rules

    def keyset(self):
        """stable description of the filter's shape (for signatures / violation keys): no values."""
        if not self.rules:
            return "all"
        return "|".join(sorted(",".join(sorted(k.decode() for k in r.d if k != b"eavesdrop")) for r in self.rules))

    def matches(self, view, owners):
        return self.verdict(view, owners) is True

    def has_destination(self):
        return any(r is not None for r in self.rest)

    def verdict(self, view, owners):
        """True / False, or None where the reference does not judge.

        destination= is compared with the text of the message's DESTINATION field.  The one case left
        unjudged: the message is being delivered to a connection (view['recipient'], its unique name) under
        another of that connection's names than the one the rule gives - the specification's table speaks of
        unique names only, and a bus may equally well compare by ownership there."""
        if not self.rules:
            return True
        unknown = False
        for r, rest in zip(self.rules, self.rest):
            if rest is None or view["destination"] is None or view["destination"] == r.d[b"destination"]:
                if r.matches(view, owners):
                    return True
                continue
            want = r.d[b"destination"]
            rcp = view.get("recipient")
            if rcp is not None and (want == rcp or owners.get(want) == rcp) and rest.matches(view, owners):
                unknown = True
        return None if unknown else False


def _args_view(msg):
    """[(typecode, value)] for the leading basic arguments (only what argN / argNpath / arg0namespace read)."""
    out = []
    sig = msg.body_sig or b""
    i = 0
    for v in msg.body:
        if i >= len(sig):
            break
        c = sig[i:i + 1]
        if c in (b"s", b"o", b"g"):
            out.append((c.decode(), v))
            i += 1
        elif c in (b"y", b"b", b"n", b"q", b"i", b"u", b"x", b"t", b"d", b"h"):
            out.append((c.decode(), None))
            i += 1
        else:
            break       # a container: later indices are not needed by any rule this check generates
    return out


def view_of(msg, true_sender):
    """The view models/matchrules.py reads, with the sender the bus must have stamped."""
    k = msg.known()
    return {"type": msg.type, "sender": true_sender, "path": k.get(1), "interface": k.get(2), "member": k.get(3),
            "destination": k.get(6), "args": _args_view(msg)}


def _hashable(v):
    if isinstance(v, (list, tuple)):
        return tuple(_hashable(x) for x in v)
    if isinstance(v, (bytes, int, float, str, bool)) or v is None:
        return v
    return repr(v)


def stream_key(msg):
    """Identity of a message as seen in a monitor's stream.
    client-sent:   ('c', sender, serial)            (the bus preserves serials)
    bus reply:     ('r', type, destination, reply_serial, error name)
    bus signal:    ('s', member, destination, body)
    Serials and texts of bus-generated messages are deliberately not part of the identity."""
    k = msg.known()
    sender = k.get(7)
    if sender != BUS:
        return ("c", sender, msg.serial)
    if msg.type in (2, 3):
        return ("r", msg.type, k.get(6), k.get(5), k.get(4))
    return ("s", k.get(3), k.get(6), _hashable(msg.body))


def content_of(msg):
    """What must be equal between a message and its copy (everything but sender / serial / flags)."""
    k = msg.known()
    return (msg.type, k.get(1), k.get(2), k.get(3), k.get(4), k.get(5), k.get(6), bytes(msg.body_sig or b""),
            _hashable(msg.body))


def category(msg, true_sender=None):
    """Stable class of a message for violation keys and signatures (never contains names or serials)."""
    k = msg.known()
    sender = true_sender if true_sender is not None else k.get(7)
    # message types above 4 are legal on the wire ("unknown types must be ignored"); the bus refuses to route them, which
    # makes them 'messages the bus refuses to deliver'; a filter naming type= can never match one, any other filter can
    tn = {1: "call", 2: "return", 3: "error", 4: "signal"}.get(msg.type, "unknown-type")
    if sender == BUS:
        if msg.type == 4:
            return "bus-signal:%s" % (k.get(3) or b"?").decode("latin1")
        if msg.type == 3:
            return "bus-error:%s" % (k.get(4) or b"?").decode("latin1").rsplit(".", 1)[-1]
        return "bus-" + tn
    dest = k.get(6)
    if dest is None:
        where = "broadcast" if msg.type == 4 else "without-destination"
    elif dest == BUS:
        where = "to-driver"
    else:
        where = "unicast"
    pre = "inactive-" if sender == NOT_ACTIVE else ""
    return "%s%s-%s" % (pre, where, tn)


class Expect(object):
    """required[key] copies must be seen, up to optional[key] further ones may be seen."""

    def __init__(self):
        self.required = collections.Counter()
        self.optional = collections.Counter()
        self.universe = collections.Counter()     # every processed message, whether or not the filter matches
        self.info = {}                            # key -> dict(cat=..., content=[...], refused=...)

    def add(self, key, matches, cat, content=None, optional=0, refused=None, required=1):
        self.universe[key] += required + optional
        d = self.info.setdefault(key, {"cat": cat, "content": [], "refused": refused})
        if content is not None:
            d["content"].append(content)
        if not matches:
            return
        self.required[key] += required
        self.optional[key] += optional

    def compare(self, seen):
        """seen: Counter of stream keys -> (missing, duplicate, unexplained) lists of (key, n)."""
        missing, dup, unexplained = [], [], []
        for key, need in self.required.items():
            have = seen.get(key, 0)
            if have < need:
                missing.append((key, need - have))
        for key, have in seen.items():
            need = self.required.get(key, 0)
            room = need + self.optional.get(key, 0)
            if have > room:
                if room == 0:
                    unexplained.append((key, have))
                else:
                    dup.append((key, have - room))
        return missing, dup, unexplained


_uniq_re = re.compile(rb":\d+\.\d+")
_pid_re = re.compile(rb"pid=\d+")


def rename(value, table):
    """Replace every unique name occurring anywhere inside value (bytes, nested lists) by table[name]."""
    if isinstance(value, bytes):
        return _pid_re.sub(b"pid=N", _uniq_re.sub(lambda m: table.get(m.group(0), m.group(0)), value))
    if isinstance(value, (list, tuple)):
        return tuple(rename(v, table) for v in value)
    if isinstance(value, (int, float, str, bool)) or value is None:
        return value
    if hasattr(value, "sig") and hasattr(value, "value"):
        return ("variant", bytes(value.sig), rename(value.value, table))
    return repr(value)
