"""Reference model of name ownership, transcribed from the specification's RequestName /
ReleaseName text (doc/dbus-specification.xml, 'Message Bus Names' and the two method sections).

State: name -> ordered queue of entries [conn, allow_replacement, do_not_queue]; queue[0] is the
primary owner.  Events returned by every transition:
    ("NameOwnerChanged", name, old, new)   broadcast
    ("NameLost", conn, name)               unicast to conn
    ("NameAcquired", conn, name)           unicast to conn
"""
import copy

ALLOW_REPLACEMENT, REPLACE_EXISTING, DO_NOT_QUEUE = 1, 2, 4
PRIMARY_OWNER, IN_QUEUE, EXISTS, ALREADY_OWNER = 1, 2, 3, 4
RELEASED, NON_EXISTENT, NOT_OWNER = 1, 2, 3


class Names(object):
    def __init__(self):
        self.q = {}          # name -> [[conn, allow, dnq], ...]
        self.conns = []      # unique names of live connections, in creation order

    def clone(self):
        return copy.deepcopy(self)

    # -- queries ------------------------------------------------------------------
    def owner(self, name):
        if name in self.conns:
            return name
        q = self.q.get(name)
        return q[0][0] if q else None

    def queue(self, name):
        if name in self.conns:
            return [name]
        return [e[0] for e in self.q.get(name, [])]

    def all_names(self):
        return set(self.conns) | set(n for n, q in self.q.items() if q)

    def names_of(self, conn):
        """names for which conn is in the queue (owner or waiting)"""
        return [n for n, q in self.q.items() if any(e[0] == conn for e in q)]

    def shape(self, name):
        return tuple((e[1], e[2]) for e in self.q.get(name, []))

    # -- transitions ----------------------------------------------------------------
    def hello(self, conn):
        self.conns.append(conn)
        return [("NameOwnerChanged", conn, b"", conn), ("NameAcquired", conn, conn)]

    def request(self, conn, name, flags, deviation=None):
        """Returns (reply code, events, decision-table row)."""
        allow = bool(flags & ALLOW_REPLACEMENT)
        repl = bool(flags & REPLACE_EXISTING)
        dnq = bool(flags & DO_NOT_QUEUE)
        q = self.q.setdefault(name, [])
        ev = []
        if not q:
            q.append([conn, allow, dnq])
            ev.append(("NameOwnerChanged", name, b"", conn))
            ev.append(("NameAcquired", conn, name))
            return PRIMARY_OWNER, ev, "unowned"
        if q[0][0] == conn:
            q[0][1], q[0][2] = allow, dnq
            return ALREADY_OWNER, ev, "already-owner"
        mine = None
        for e in q:
            if e[0] == conn:
                mine = e
        if q[0][1] and repl:
            old = q[0]
            if mine is not None:
                q.remove(mine)
            q.insert(0, [conn, allow, dnq])
            # previous primary owner is now second; dropped if it does not queue
            if old[2]:
                q.remove(old)
            ev.append(("NameLost", old[0], name))
            ev.append(("NameOwnerChanged", name, old[0], conn))
            ev.append(("NameAcquired", conn, name))
            return PRIMARY_OWNER, ev, "replace"
        # replacement not possible
        if mine is not None:
            mine[1], mine[2] = allow, dnq
            if deviation == "queue-position:replace-existing-not-replaceable" and repl and not dnq:
                q.remove(mine)
                q.insert(1, mine)
            if dnq:
                q.remove(mine)
                return EXISTS, ev, "queued-now-dnq"
            return IN_QUEUE, ev, "queued-update"
        if dnq:
            return EXISTS, ev, "exists"
        if deviation == "queue-position:replace-existing-not-replaceable" and repl:
            q.insert(1, [conn, allow, dnq])
        else:
            q.append([conn, allow, dnq])
        return IN_QUEUE, ev, "enqueue"

    def release(self, conn, name):
        q = self.q.get(name)
        if not q:
            return NON_EXISTENT, [], "non-existent"
        for i, e in enumerate(q):
            if e[0] == conn:
                break
        else:
            return NOT_OWNER, [], "not-owner"
        ev = []
        if i == 0:
            q.pop(0)
            new = q[0][0] if q else b""
            ev.append(("NameLost", conn, name))
            ev.append(("NameOwnerChanged", name, conn, new))
            if q:
                ev.append(("NameAcquired", new, name))
            row = "release-primary" + ("-handover" if q else "")
        else:
            q.pop(i)
            row = "release-queued"
        if not q:
            del self.q[name]
        return RELEASED, ev, row

    def disconnect(self, conn):
        """Events of a disconnect; order among well-known names is unspecified, the unique name is last.
        The disconnected connection itself receives nothing."""
        ev = []
        for name in list(self.q):
            q = self.q[name]
            for i, e in enumerate(q):
                if e[0] == conn:
                    if i == 0:
                        q.pop(0)
                        new = q[0][0] if q else b""
                        ev.append(("NameOwnerChanged", name, conn, new))
                        if q:
                            ev.append(("NameAcquired", new, name))
                    else:
                        q.pop(i)
                    break
            if not q:
                del self.q[name]
        if conn in self.conns:
            self.conns.remove(conn)
            ev.append(("NameOwnerChanged", conn, conn, b""))
        return ev
