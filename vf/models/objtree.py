"""Reference model of a connection's object-path handler table (C20).

Written from the property statement and the API documentation of
dbus_connection_try_register_object_path / try_register_fallback / unregister_object_path /
list_registered / get_object_path_data - never from dbus-object-tree.c.

State: dict  path (tuple of components, () = "/")  ->  Reg(id, fallback, declines).
"""
import collections

UNKNOWN_METHOD = "org.freedesktop.DBus.Error.UnknownMethod"
UNKNOWN_OBJECT = "org.freedesktop.DBus.Error.UnknownObject"
IN_USE = "org.freedesktop.DBus.Error.ObjectPathInUse"

Reg = collections.namedtuple("Reg", "id fallback declines")
Dispatch = collections.namedtuple("Dispatch", "offered taker error why")


def split(path):
    """'/a/b' -> ('a','b');  '/' -> ()"""
    if path == "/":
        return ()
    assert path.startswith("/") and not path.endswith("/"), path
    return tuple(path[1:].split("/"))


def join(t):
    return "/" + "/".join(t)


class ObjTree(object):
    def __init__(self):
        self.reg = {}

    # ---- mutation
    def register(self, path, hid, fallback, declines):
        """returns None on success or the error name; an occupied path changes nothing"""
        p = split(path)
        if p in self.reg:
            return IN_USE
        self.reg[p] = Reg(hid, bool(fallback), bool(declines))
        return None

    def unregister(self, path):
        """returns the removed registration (callers never unregister a free path)"""
        return self.reg.pop(split(path))

    # ---- queries
    def data(self, path):
        r = self.reg.get(split(path))
        return r.id if r else None

    def children(self, path):
        p = split(path)
        n = len(p)
        return sorted(set(q[n] for q in self.reg if len(q) > n and q[:n] == p))

    def is_registered(self, path):
        return split(path) in self.reg

    def has_descendant(self, path):
        p = split(path)
        return any(len(q) > len(p) and q[:len(p)] == p for q in self.reg)

    def ancestor_fallbacks(self, path):
        """fallback registrations at strict ancestors, nearest first"""
        p = split(path)
        out = []
        for n in range(len(p) - 1, -1, -1):
            r = self.reg.get(p[:n])
            if r is not None and r.fallback:
                out.append(r)
        return out

    def dispatch(self, path):
        """A method call to `path`: the handlers offered the call in order, who takes it, and the
        automatic error when nobody does."""
        p = split(path)
        chain = []
        exact = self.reg.get(p)
        if exact is not None:
            chain.append(exact)          # registered at exactly this path (fallback or not)
        chain += self.ancestor_fallbacks(path)
        offered = []
        for r in chain:
            offered.append(r.id)
            if not r.declines:
                return Dispatch(offered, r.id, None, "handled")
        if exact is not None:
            return Dispatch(offered, None, UNKNOWN_METHOD, "registered")
        if self.has_descendant(path):
            return Dispatch(offered, None, UNKNOWN_METHOD, "ancestor-of-registered")
        if len(chain) > 0:
            return Dispatch(offered, None, UNKNOWN_METHOD, "below-fallback")
        return Dispatch(offered, None, UNKNOWN_OBJECT, "unknown-object")
