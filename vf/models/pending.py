"""Reference model of the bus's pending-reply bookkeeping, written from the statement of property C09 and the
dbus-daemon(1) descriptions of send_requested_reply / receive_requested_reply, max_replies_per_connection and
reply_timeout.  Nothing here is taken from bus/connection.c.

State: a set of open reply slots (caller, callee, serial).

  * a slot is opened when a method call WITHOUT the NO_REPLY_EXPECTED flag is delivered to its addressed
    recipient (callee = the connection that really received it, whatever name was used to address it);
  * it is closed by the first METHOD_RETURN / ERROR from callee to caller carrying that reply serial, by the
    callee's disconnect (the caller then gets exactly one NoReply), by the reply timeout (the caller gets exactly
    one NoReply), and silently dropped when the caller disconnects;
  * a call that reuses the serial of a still-open slot with the same callee is refused (access denied), a call made
    while the caller already has `limit` open slots is refused (limits exceeded); refused calls are not delivered
    and open nothing.

Time is logical.  The one thing the caller can observe about an expiry is the NoReply error, and the bus queues it
for the caller at the moment the slot goes away; therefore, once the caller has completed a round-trip to the bus
(ordering barrier) AFTER the operation under judgement:

  * a slot whose NoReply has not been read was still open when the operation was processed;
  * a slot whose NoReply was read during this operation ("just expired") may have gone away before or after the
    operation was processed - both readings are admissible, which is the "reply racing the timeout" clause.

The wall clock is used in one direction only: the bus stamps a slot when it processes the call, i.e. never before
the test wrote it, and both sides read CLOCK_MONOTONIC; so a timeout-NoReply read less than reply_timeout after the
call was written is premature no matter how slow the machine is.
"""

DELIVER, REFUSE_DENIED, REFUSE_LIMIT = "deliver", "refuse:access-denied", "refuse:limits-exceeded"

SLACK = 0.002          # seconds of floating point / rounding slack for the premature-expiry test


class Slot(object):
    __slots__ = ("caller", "callee", "serial", "opened_at", "tag")

    def __init__(self, caller, callee, serial, opened_at, tag=None):
        self.caller, self.callee, self.serial, self.opened_at, self.tag = caller, callee, serial, opened_at, tag

    def key(self):
        return (self.caller, self.callee, self.serial)

    def __repr__(self):
        return "<slot %r->%r #%d>" % (self.caller, self.callee, self.serial)


class Pending(object):
    def __init__(self, limit=128, timeout_ms=None):
        self.limit = limit
        self.timeout = None if not timeout_ms or timeout_ms < 0 else timeout_ms / 1000.0
        self.slots = {}         # (caller, callee, serial) -> Slot

    # -- queries ----------------------------------------------------------------------------------
    def get(self, caller, callee, serial):
        return self.slots.get((caller, callee, serial))

    def slots_of_caller(self, caller):
        return [s for s in self.slots.values() if s.caller == caller]

    def slots_of_callee(self, callee):
        return [s for s in self.slots.values() if s.callee == callee]

    def count(self, caller):
        return len(self.slots_of_caller(caller))

    # -- method calls -----------------------------------------------------------------------------
    def call_outcomes(self, caller, callee, serial, no_reply, just_expired=()):
        """Admissible outcomes of a method call that policy lets through: subset of
        {DELIVER, REFUSE_DENIED, REFUSE_LIMIT}.  `just_expired` = slots whose NoReply was read during the operation
        (they may or may not still have existed when the bus processed the call)."""
        if no_reply:
            return {DELIVER}
        key = (caller, callee, serial)
        sure = len([s for s in self.slots_of_caller(caller) if s.key() != key])
        maybe = len([s for s in just_expired if s.caller == caller and s.key() != key])
        if key in self.slots:
            dup_worlds = (True,)
        elif any(s.key() == key for s in just_expired):
            dup_worlds = (True, False)
        else:
            dup_worlds = (False,)
        out = set()
        for alive in dup_worlds:
            if alive:
                out.add(REFUSE_DENIED)
                # which of the two refusals wins when both apply is not part of the property
                if sure + 1 + maybe >= self.limit:
                    out.add(REFUSE_LIMIT)
            else:
                if sure < self.limit:
                    out.add(DELIVER)
                if sure + maybe >= self.limit:
                    out.add(REFUSE_LIMIT)
        return out

    def opened(self, caller, callee, serial, opened_at, tag=None):
        """The call was observed at the callee (and did not carry NO_REPLY_EXPECTED)."""
        s = Slot(caller, callee, serial, opened_at, tag)
        self.slots[s.key()] = s
        return s

    # -- replies ----------------------------------------------------------------------------------
    def reply_outcome(self, replier, target, reply_serial):
        """Fate of a METHOD_RETURN/ERROR sent by `replier` to `target` (evaluated after the barrier, see above)."""
        return "deliver" if (target, replier, reply_serial) in self.slots else "refuse"

    def close(self, caller, callee, serial):
        return self.slots.pop((caller, callee, serial), None)

    # -- expiry -------------------------------------------------------------------------------------
    def noreply(self, caller, serial, now):
        """The caller read a timeout-NoReply for `serial` at monotonic time `now`.
        -> ("expired", slot) | ("premature", slot) | ("no-slot", None)"""
        cands = sorted((s for s in self.slots_of_caller(caller) if s.serial == serial), key=lambda s: s.opened_at)
        if not cands:
            return "no-slot", None
        if self.timeout is None:
            return "premature", cands[0]
        for s in cands:
            if now - s.opened_at >= self.timeout - SLACK:
                del self.slots[s.key()]
                return "expired", s
        return "premature", cands[0]

    # -- disconnects ----------------------------------------------------------------------------------
    def disconnect(self, conn):
        """-> (slots whose caller must now get exactly one NoReply, slots silently dropped)."""
        owed, dropped = [], []
        for k, s in list(self.slots.items()):
            if s.caller == conn:
                dropped.append(self.slots.pop(k))
            elif s.callee == conn:
                owed.append(self.slots.pop(k))
        return owed, dropped
