"""Oracle for C17: every call awaiting a reply completes exactly once.

Judges one executed case: the harness's event log (global atomic sequence numbers), the final per-call
state, and the log of what the scripted peer really wrote.  Written from the property statement and the
API documentation in dbus-connection.c / dbus-pending-call.c:

 * "A DBusPendingCall will always see exactly one reply message, unless it's cancelled"
 * "If no reply is received in the given timeout_milliseconds, this function expires the pending reply
    and generates a synthetic error reply" (DBUS_ERROR_NO_REPLY; DBUS_ERROR_DISCONNECTED when the
    connection is lost)
 * "If you cancel the call, no reply is received unless the reply was already received before you
    canceled."
 * dbus_pending_call_block: "Block until the pending call is completed."
 * dbus_pending_call_set_notify: "a notification function to be called when the reply is received or the
    pending call times out"

Only what is promised is judged; everything timing dependent is judged from logical conditions (sequence
numbers, and timestamps only in the direction that cannot be caused by a slow machine).  The one place where a
waiting time is part of the verdict is the multi-blocker section at the end of this file ("a reply that has arrived
completes its call"), and it says why that watch cannot be expired by load.
"""
import collections

NO_REPLY = "org.freedesktop.DBus.Error.NoReply"
DISCONNECTED = "org.freedesktop.DBus.Error.Disconnected"
LOCAL_NAMES = (NO_REPLY, DISCONNECTED)
INFINITE = 0x7FFFFFFF
FINITE_LIMIT = 1000         # ms; timeouts below are "short" and must have fired by the end of the drain

Finding = collections.namedtuple("Finding", "cls what call")


def is_finite(timeout_ms):
    return 0 <= timeout_ms < FINITE_LIMIT


class PeerLog(object):
    """what the peer really wrote: serial -> list of (rtype, error name, idx marker, copy marker)"""

    def __init__(self):
        self.by_serial = collections.defaultdict(list)
        self.spoofs = collections.defaultdict(list)      # serial -> (type, idx, copy) of non-replies carrying REPLY_SERIAL
        self.closed = False
        self.unknown_serial_replies = 0

    def add(self, reply_serial, rtype, name, idx, copy):
        self.by_serial[reply_serial].append((rtype, name or "", idx, copy))


def judge(result, peer, closed_by_us_in_teardown=True, rc=None):
    """returns (findings, per-call signatures, counters).  rc: the case is a reply-then-close case (see the end of this file)"""
    F = []
    sigs = []
    cnt = collections.Counter()
    evs = result["events"]
    calls = {c["c"]: c for c in result["calls"]}
    by_call = collections.defaultdict(list)
    for e in evs:
        if e["c"] >= 0:
            by_call[e["c"]].append(e)
    disc_seen = bool(result.get("disconnected"))       # the client had noticed the loss before the final look
    peer_closed = peer.closed or disc_seen
    # reply-then-close: the harness saw, before its first read, the peer's hangup pending on the socket together with
    # unread bytes - every reply the peer wrote has ARRIVED before the close and nothing of it had been read yet
    rc_ok = False
    if rc:
        chk = [e for e in evs if e["k"] == "chk"]
        rc_ok = bool(chk) and chk[0]["a"] == 1 and chk[0]["b"] > 0 and peer.closed
        cnt["rc-precondition-verified" if rc_ok else "rc-precondition-missed"] += 1

    # ---- re-registration of the timeout functions (op M): checked by the harness on the spot
    reregs = [e for e in evs if e["k"] == "rereg"]
    for e in reregs:
        mode = {0: "same-functions", 1: "other-functions", 2: "null-and-back"}.get(e["a"], str(e["a"]))
        cnt["rr-ops:" + mode] += 1
        cnt["rr-timeouts-moved"] += e["b"]
        if e["b"]:
            cnt["rr-ops-with-outstanding-timeouts:" + mode] += 1
        m = e.get("m", [0, 0, 0])
        if not e.get("rs"):
            F.append(Finding("set-timeout-functions-failed", "dbus_connection_set_timeout_functions returned FALSE (%s)" % mode, -1))
        if m[0]:
            F.append(Finding("timeout-lost-on-reregistration", "dbus_connection_set_timeout_functions (%s, new data): %d of the %d DBusTimeouts "
                             "that were registered with the application before the call are registered in no main-loop context "
                             "afterwards (removed through the previous remove function, never handed to the new add function)"
                             % (mode, m[0], e["b"]), -1))
        if m[1]:
            F.append(Finding("timeout-left-in-old-context-on-reregistration", "dbus_connection_set_timeout_functions (%s): %d DBusTimeout(s) "
                             "are still registered in a context other than the new one afterwards" % (mode, m[1]), -1))
        if m[2]:
            F.append(Finding("timeout-added-twice-on-reregistration", "dbus_connection_set_timeout_functions (%s): %d DBusTimeout(s) were "
                             "added more than once to the new context" % (mode, m[2]), -1))

    def arrived(idx, serial):
        return rc_ok and any(m_idx == idx for _, _, m_idx, _ in peer.by_serial.get(serial, []))

    # ---- serials
    seen = {}
    for idx, c in sorted(calls.items()):
        sent = [e for e in by_call[idx] if e["k"] in ("sent", "wend")]
        if not sent:
            continue
        s = c["serial"]
        live = c["state"] == 1
        got_peer_reply = any(e["k"] == "wend" and e.get("rt") in (2, 3) and e["name"] not in LOCAL_NAMES for e in sent)
        if s == 0:
            if live or got_peer_reply:
                F.append(Finding("serial-zero", "call %d was sent with serial 0" % idx, idx))
            continue
        cnt["serials-checked"] += 1
        if s in seen:
            F.append(Finding("serial-repeated", "calls %d and %d both got serial %d" % (seen[s], idx, s), idx))
        seen[s] = idx

    def check_reply(idx, serial, e, where, timeout_ms, t_sent_us, phase):
        """a reply (or local error) handed to the application for call idx"""
        rt, rs, name, m = e.get("rt"), e.get("rs"), e.get("name", ""), e.get("m", [])
        if rt in (1, 4) and rs == serial and (rt, m[0] if m else None, m[1] if len(m) > 1 else None) in peer.spoofs.get(serial, []):
            # a SIGNAL / METHOD_CALL is not a reply, whatever header fields it carries: the call has to wait for its
            # reply or its timeout
            F.append(Finding("completed-by-non-reply:" + ("signal" if rt == 4 else "method-call"),
                             "%s of call %d (serial %d) yielded the peer's %s that merely carries REPLY_SERIAL %d"
                             % (where, idx, serial, "SIGNAL" if rt == 4 else "METHOD_CALL", rs), idx))
            return "non-reply"
        if rt not in (2, 3):
            F.append(Finding("reply-type", "%s of call %d yielded message type %r" % (where, idx, rt), idx))
            return "bad"
        if rs != serial:
            F.append(Finding("reply-serial-mismatch", "%s of call %d (serial %d) yielded a message with REPLY_SERIAL %d"
                             % (where, idx, serial, rs), idx))
            return "bad"
        if rt == 3 and name in LOCAL_NAMES and not m:
            # locally generated
            if phase < 2 and arrived(idx, serial):
                F.append(Finding("local-error-although-reply-arrived", "%s of call %d (serial %d) yielded a local %s error although the peer's "
                                 "reply to it (%r) was in the socket buffer before the peer's close and before the client's first read"
                                 % (where, idx, serial, name.rsplit(".", 1)[-1], peer.by_serial.get(serial)), idx))
                return "bad"
            if phase == 2 or peer_closed:
                kind = "local-disconnect" if (name == DISCONNECTED or not is_finite(timeout_ms)) else "local-timeout-or-disconnect"
                return kind
            if name == DISCONNECTED:
                F.append(Finding("local-error-while-connected", "%s of call %d yielded a local Disconnected error although the "
                                 "connection was never lost" % (where, idx), idx))
                return "bad"
            if not is_finite(timeout_ms):
                F.append(Finding("timeout-without-timeout", "%s of call %d yielded a local NoReply error although it has no timeout "
                                 "and the connection was never lost" % (where, idx), idx))
                return "bad"
            if t_sent_us is not None and e["us"] + 2000 < t_sent_us + timeout_ms * 1000:
                F.append(Finding("premature-timeout", "%s of call %d yielded NoReply %d us after the send, timeout is %d ms"
                                 % (where, idx, e["us"] - t_sent_us, timeout_ms), idx))
                return "bad"
            return "local-timeout"
        sent = peer.by_serial.get(serial, [])
        if m and m[0] != idx:
            F.append(Finding("paired-with-different-call", "%s of call %d yielded the peer's reply to call %d" % (where, idx, m[0]), idx))
            return "bad"
        key = (rt, name if rt == 3 else "", m[0] if m else None, m[1] if len(m) > 1 else None)
        if key not in [(a, b if a == 3 else "", c, d) for a, b, c, d in sent]:
            F.append(Finding("reply-not-sent-by-peer", "%s of call %d yielded %r which the peer never sent for serial %d (peer sent %r)"
                             % (where, idx, key, serial, sent), idx))
            return "bad"
        return "peer-error" if rt == 3 else "peer-return"

    for idx, c in sorted(calls.items()):
        es = by_call[idx]
        kinds = collections.Counter(e["k"] for e in es)
        # ---- send_with_reply_and_block
        for wb, we in zip([e for e in es if e["k"] == "wbeg"], [e for e in es if e["k"] == "wend"]):
            cnt["swrb"] += 1
            t = we["b"]
            rt, name = we.get("rt"), we.get("name", "")
            if rt == 0:
                # NULL + DBusError
                if name in LOCAL_NAMES:
                    if peer_closed:
                        how = "local-disconnect"
                    elif name == DISCONNECTED:
                        F.append(Finding("local-error-while-connected", "send_with_reply_and_block of call %d failed with Disconnected "
                                         "although the connection was never lost" % idx, idx))
                        how = "bad"
                    elif not is_finite(t) or we["us"] + 2000 < wb["us"] + t * 1000:
                        F.append(Finding("premature-timeout", "send_with_reply_and_block of call %d failed with NoReply after %d us, "
                                         "timeout %d ms" % (idx, we["us"] - wb["us"], t), idx))
                        how = "bad"
                    else:
                        how = "local-timeout"
                elif (3, name) in [(a, b) for a, b, _, _ in peer.by_serial.get(we["a"], [])]:
                    how = "peer-error"
                else:
                    F.append(Finding("swrb-unexpected-error", "send_with_reply_and_block of call %d (serial %d) failed with %r; peer sent %r"
                                     % (idx, we["a"], name, peer.by_serial.get(we["a"], [])), idx))
                    how = "bad"
            else:
                how = check_reply(idx, we["a"], we, "send_with_reply_and_block", t, wb["us"], we["ph"])
                if how == "peer-error":
                    F.append(Finding("swrb-returned-error-message", "send_with_reply_and_block of call %d returned an ERROR message" % idx, idx))
            sigs.append(("swrb", how, "short" if is_finite(t) else "inf", peer_closed))
        if c["state"] != 1:
            if kinds.get("sent"):
                cnt["send-without-pending(disconnected)"] += 1
                if not peer_closed:
                    F.append(Finding("no-pending-call-while-connected", "send_with_reply for call %d returned no DBusPendingCall although the "
                                     "connection was never lost" % idx, idx))
            continue
        cnt["calls-judged"] += 1
        sent = [e for e in es if e["k"] == "sent"][0]
        serial, timeout_ms = c["serial"], c["timeout"]
        t_sent = sent["m"][0] if sent.get("m") else sent["us"]
        notifies = [e for e in es if e["k"] == "notify"]
        steals = [e for e in es if e["k"] == "steal"]
        xend = [e for e in es if e["k"] == "xend"]
        xbeg = [e for e in es if e["k"] == "xbeg"]
        nsets = [e for e in es if e["k"] == "nset"]
        obs = [(e["s"], e["t"], e["a"], e["k"]) for e in es if e["k"] in ("poll", "bend", "nset", "xend", "end")]
        completed_end = c["completed"] == 1
        cancelled = bool(xbeg)
        observers = set()

        # ---- exactly once
        if len(notifies) > 1:
            F.append(Finding("multiple-notify", "call %d was notified %d times" % (idx, len(notifies)), idx))
        if notifies:
            observers.add("notify")
        if len(steals) > 1:
            F.append(Finding("harness-stole-twice", "call %d: reply stolen twice (harness bug)" % idx, idx))
        # completion flag is single-assignment: within one thread it never goes back
        last = {}
        for s, t, a, k in sorted(obs):
            if last.get(t) == 1 and a == 0:
                F.append(Finding("completion-reverted", "call %d: get_completed went from TRUE back to FALSE in thread %d" % (idx, t), idx))
            last[t] = a
            if a == 1 and k in ("poll", "bend"):
                observers.add("poll" if k == "poll" else "block")
        ever_completed = completed_end or any(a == 1 for _, _, a, _ in obs) or bool(notifies) or bool(steals)

        # ---- what it completed with
        how = "incomplete"
        for st in steals:
            how = check_reply(idx, serial, st, "steal_reply", timeout_ms, t_sent, st["ph"])
            observers.add("steal")
        if ever_completed and not steals:
            how = "completed-unseen"

        # ---- cancellation
        if xend:
            xe = xend[0]
            late = [n for n in notifies if n["s"] > xe["s"]]
            # which API call brought the cancelled call back: a blocking wait that ended after the cancel began, or not
            via = ":via-block" if any(e["k"] == "bend" and e["s"] > xbeg[0]["s"] for e in es) else ""
            if xe["a"] == 0:
                # incomplete when cancel returned: "no reply is received" - no notification, no completion, ever.
                # (When the call was already complete at that moment, the one notification of that completion may
                # still be in flight in another thread and is legitimate: "unless the reply was already received
                # before you canceled".)
                if notifies:
                    F.append(Finding("cancelled-call-notified" + via, "call %d was incomplete when dbus_pending_call_cancel returned "
                                     "(seq %d) and its notify function was called (seq %d, %s cancel returned)"
                                     % (idx, xe["s"], notifies[0]["s"], "after" if late else "logged before"), idx))
                comp_after = [o for o in obs if o[2] == 1]
                if comp_after or completed_end or steals:
                    F.append(Finding("completed-after-cancel" + via, "call %d was incomplete when dbus_pending_call_cancel returned and was "
                                     "completed later (%s)" % (idx, [o[3] for o in comp_after][:3] or "final state"), idx))
            crel = "cancel-before-completion" if xe["a"] == 0 else "cancel-after-completion"
        else:
            crel = "no-cancel"

        # ---- block returns only when complete
        for be in [e for e in es if e["k"] == "bend"]:
            cnt["block"] += 1
            if be["a"] != 1:
                xb = [x for x in xbeg if x["s"] < be["s"]]
                if not xb:
                    F.append(Finding("block-returned-incomplete", "dbus_pending_call_block on call %d returned while the call was incomplete "
                                     "and not cancelled" % idx, idx))

        # ---- notification delivered when it was armed before completion
        armed = [n for n in nsets if n["a"] == 0]
        if armed and completed_end and not cancelled and not notifies:
            F.append(Finding("notify-missing", "call %d completed after a notify function had been set, and the function was never called" % idx, idx))

        # ---- a call with no timeout on a healthy connection can only complete with the peer's reply
        if not cancelled and not is_finite(timeout_ms) and not peer_closed and not ever_completed and peer.by_serial.get(serial) \
                and result.get("fin"):      # the barrier reply was dispatched, so everything written before it was too
            if any(m_idx == idx for _, _, m_idx, _ in peer.by_serial[serial]):
                F.append(Finding("reply-lost", "the peer replied to call %d (serial %d), the connection was dispatched until idle, and the "
                                 "call never completed" % (idx, serial), idx))

        # ---- bounded progress: judged by the caller (needs the solo re-run); reported here as a condition
        if not cancelled and not completed_end and (is_finite(timeout_ms) or disc_seen):
            cnt["must-complete-but-incomplete"] += 1
            if result.get("quiescent") == 2:
                # connected, the peer's script is over (barrier passed), nothing is queued, and libdbus has no short timeout
                # registered with the application any more: nothing is left that could complete this call
                F.append(Finding("never-completed:timeout-lost", "call %d (serial %d, timeout %d ms) is incomplete although the connection is "
                                 "healthy, everything the peer wrote has been dispatched and libdbus no longer has a timeout for it "
                                 "registered (peer sent for this serial: replies %r, non-replies %r)"
                                 % (idx, serial, timeout_ms, peer.by_serial.get(serial, []), peer.spoofs.get(serial, [])), idx))
            elif result.get("quiescent") and arrived(idx, serial):
                # reply-then-close: the reply was received with the same read that saw the end of the stream; the connection
                # was then dispatched until nothing was left.  The known weakness about calls WITHOUT a reply at disconnect
                # (next branch) is a different thing: this call's reply had arrived.
                F.append(Finding("never-completed:reply-arrived-before-close", "call %d (serial %d, timeout %d ms): the peer wrote its reply "
                                 "(%r) and closed; the client's first read found the reply bytes and the hangup pending together; the "
                                 "connection was dispatched until the Disconnected signal had been delivered and no event source was "
                                 "left, and the call never completed (no notify, get_completed FALSE)"
                                 % (idx, serial, timeout_ms, peer.by_serial.get(serial)), idx))
            elif result.get("quiescent"):
                # not a matter of waiting: the connection is lost, its Disconnected signal was dispatched, nothing is
                # queued and no timeout is registered - no event can complete this call any more
                F.append(Finding("never-completed:after-disconnect", "call %d (serial %d, timeout %d ms) was outstanding when the "
                                 "connection was lost; the connection was dispatched until the Disconnected signal had been "
                                 "delivered and no event source was left, and the call never completed" % (idx, serial, timeout_ms), idx))
            else:
                F.append(Finding("INCOMPLETE", "call %d (timeout %d ms, peer closed: %s) still incomplete after %s ms of dispatching"
                                 % (idx, timeout_ms, disc_seen, result.get("run_ms")), idx))
        pk = "none"
        ps = peer.by_serial.get(serial, [])
        if ps:
            pk = "+".join(sorted(set(("ret" if a == 2 else "err") + ("-dup" if d else "") for a, _, _, d in ps)))
        if peer.spoofs.get(serial):
            pk += "+spoof-" + "-".join(sorted(set("sig" if a == 4 else "call" for a, _, _ in peer.spoofs[serial])))
        sigs.append(("call", how, crel, tuple(sorted(observers)), "short" if is_finite(timeout_ms) else "inf", pk, peer_closed)
                    + (("rc",) if rc else ()))
        cnt["completed:" + how] += 1
        if reregs:
            # was this call outstanding (sent, nothing seen of a completion) when the main loop was changed?
            seen_done = [e["s"] for e in es if e["k"] in ("notify", "steal") or (e["k"] in ("poll", "nset", "xend", "bend") and e["a"] == 1)]
            first_done = min(seen_done) if seen_done else None
            over = [r for r in reregs if r["s"] > sent["s"] and (first_done is None or r["s"] < first_done)]
            if over and not cancelled:
                cnt["rr-calls-outstanding-at-rereg"] += 1
                cnt["rr-outstanding-then:" + how] += 1
            elif reregs[0]["s"] < sent["s"]:
                cnt["rr-calls-sent-after-rereg"] += 1
        if rc_ok:
            if arrived(idx, serial):
                cnt["rc-calls-answered"] += 1
                if how in ("peer-return", "peer-error"):
                    cnt["rc-answered-completed-with-reply"] += 1
                    via_block = any(e["k"] == "bend" for e in es)
                    cnt["rc-completed-via:" + ("block" if via_block else "dispatch")] += 1
                    for o in observers:
                        cnt["rc-observed-by:" + o] += 1
            else:
                cnt["rc-calls-unanswered"] += 1
    if result.get("timer_remove_unknown"):
        F.append(Finding("timeout-removed-twice", "libdbus asked the application to remove a DBusTimeout that was not added (or twice), %d times"
                         % result["timer_remove_unknown"], -1))
    return F, sigs, cnt


# ----------------------------------------------------------------------------- several blocking waits, one write
#
# Scenario class: k threads block (dbus_pending_call_block / send_with_reply_and_block) on k different calls of one
# connection; the peer answers all of them with ONE write() - in an order of its own - and then stays silent.  Whichever
# thread owns the I/O path reads all replies; every other thread has to find its reply in the incoming queue when it
# is handed the I/O path.  "Block until the pending call is completed": a reply that has arrived completes its call;
# the only thing that could still end the wait otherwise is the call's own timeout (>= 20 s or none here).
#
# Time is used in one direction only and generously: the harness's monitor starts its clock when the FIRST blocking
# wait returns (so the one write has been read by libdbus) and reports a blocking wait that has still not returned
# watch_ms (5 s) later - far below the smallest timeout used (20 s), far above any scheduling delay, and counted in the
# monitor's own wake-ups as well as in wall time so that a stall of the whole process cannot expire it.

def written_replies(peer):
    """call index markers of every reply the peer wrote"""
    return set(idx for entries in peer.by_serial.values() for (_, _, idx, _) in entries)


def judge_multi_blocker_stuck(result, peer, mb):
    """the harness reported {"mb_stuck":1,...}: -> (findings, counters)"""
    F = []
    cnt = collections.Counter()
    replied = written_replies(peer)
    blockers = result.get("blockers", [])
    returned = sorted(b["c"] for b in blockers if b["blk"] == 2)
    seen = set()
    for b in blockers:
        if b["blk"] != 1:
            continue
        # the wait has gone on for the whole watch, counted from the first return of the case or from its own start
        waited = (result.get("now_us", 0) - max(result.get("first_return_us", 0), b.get("beg_us", 0))) // 1000
        if waited < result.get("watch_ms", mb["watch_ms"]):
            cnt["mb-late-starter-still-waiting"] += 1
            continue
        cnt["mb-stuck-blockers"] += 1
        if b["c"] not in replied:
            # not this scenario (the peer never answered this call): nothing is promised
            F.append(Finding("INCONCLUSIVE-MB", "blocking wait on call %d has not returned but the peer did not write a reply for it" % b["c"], b["c"]))
            continue
        cls = "infinite-timeout" if b["timeout"] == INFINITE else "finite-timeout"
        if cls in seen:
            continue
        seen.add(cls)
        F.append(Finding("hang:reply-queued-but-blocker-sleeps:" + cls,
                         "the blocking wait of thread %d on call %d (timeout %s) had not returned %d ms after the blocking wait(s) on call(s) %r "
                         "of the same connection returned, although the peer had written the replies to calls %r in one write() (and nothing "
                         "afterwards): the reply has arrived and does not complete its call (get_completed=%d)"
                         % (b["tid"], b["c"], "none" if b["timeout"] == INFINITE else "%d ms" % b["timeout"], waited, returned,
                            sorted(replied), b.get("completed", -1)), b["c"]))
    return F, cnt


def judge_multi_blocker(result, peer, mb, writes, t_written_us):
    """evidence for a multi-blocker case that ran to its end.  writes: list of (reply idx markers in write order) per
    write() of the peer that contained replies; t_written_us: absolute monotonic time after that write"""
    cnt = collections.Counter()
    k = mb["k"]
    one_write = len(writes) == 1 and len(writes[0]) == k
    if one_write:
        cnt["mb-one-write-verified"] += 1
        serial_of = {c["c"]: c["serial"] for c in result["calls"]}
        by_serial = sorted(writes[0], key=lambda i: serial_of.get(i, 0))
        if list(writes[0]) != by_serial:
            cnt["mb-reply-order-differs-from-call-order"] += 1
    t0 = result.get("t0_us")
    begs = {}
    ends = {}
    for e in result["events"]:
        if e["k"] in ("bbeg", "wbeg"):
            begs[e["c"]] = e["us"]
        elif e["k"] in ("bend", "wend"):
            ends[e["c"]] = e["us"]
    if t0 is not None and t_written_us is not None and one_write:
        waiting = sum(1 for c, us in begs.items() if t0 + us + 2000 < t_written_us)
        cnt["mb-blocked-at-write:%d" % waiting] += 1
        if waiting >= 2:
            cnt["mb-handover-cases"] += 1
            if any(t == INFINITE for t in mb["timeouts"]):
                cnt["mb-handover-cases:infinite"] += 1
            if any(t != INFINITE for t in mb["timeouts"]):
                cnt["mb-handover-cases:finite"] += 1
    if len(ends) >= 2:
        # how long a blocking wait went on after the replies had demonstrably arrived (= after the first return of the
        # case) - counted from its own start if it started later.  This is the quantity the harness's watch bounds.
        first_end = min(ends.values())
        lag = max((ends[c] - max(begs.get(c, 0), first_end)) / 1000.0 for c in ends)
        cnt["mb-completion-lag:" + ("<=10ms" if lag <= 10 else "<=100ms" if lag <= 100 else "<=300ms" if lag <= 300 else
                                    "<=1s" if lag <= 1000 else "<=2.5s" if lag <= 2500 else ">2.5s")] += 1
        cnt["mb-completion-lag-max-ms"] = int(lag)
    return cnt


# ----------------------------------------------------------------------------- reply, then close at once
#
# Scenario class (judge(..., rc=...)): the peer answers k >= 1 outstanding calls in one write() and closes its socket
# immediately afterwards, while the client is not reading.  The harness (op C) waits, without reading, until the hangup
# is pending on the socket and records that unread bytes are pending with it, so its next read consumes the replies and
# the end of the stream in one iteration.  The calls are observed through notify callbacks / get_completed + steal_reply
# after dispatching (a blocking wait on one of them is allowed as the first reader).
# Oracle: "completes exactly once: with the reply whose reply-serial matches it, or with a locally generated error if
# ... the connection closes first" - the reply did not come after the close, so every answered call completes with that
# reply: not with a local Disconnected / NoReply error (local-error-although-reply-arrived) and not never
# (never-completed:reply-arrived-before-close).  Calls the peer did not answer stay with the ordinary rules.  No
# waiting time is involved: the harness dispatches until the connection is quiescent.


# ----------------------------------------------------------------------------- the main loop is changed under outstanding calls
#
# Op M calls dbus_connection_set_timeout_functions() again while calls with finite timeouts are outstanding: same
# function pointers with other data (the connection moves to another main-loop context), other function pointers, or
# NULL and back.  "Sets the mainloop functions ... whenever there's a timeout to be added the add function is called":
# libdbus hands the timeouts it owns to the new add function and takes them from the previous remove function.  The
# harness keeps one timer table with a context id per entry and runs (fires) only the context libdbus was last given.
# The C17 rules stay what they are - a call whose reply never comes completes with the local NoReply once its timeout
# has elapsed (bounded progress exactly as for every other short timeout: the drain loop, quiescent == 2 when libdbus
# has no short timeout registered in the running context any more) - plus the invariant the harness checks on the
# spot: each timeout registered before the call is registered exactly once, in the new context, after it.
