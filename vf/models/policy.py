"""Reference evaluator for the bus security policy, transcribed from doc/dbus-daemon.1.xml.in
(the <policy> / <allow> / <deny> section), NOT from bus/policy.c.

What the man page says, and how it is transcribed here
-----------------------------------------------------
* Order of application: all context="default" policies, then group= policies of the connection's
  groups, then user= policies of the connection's user, then at_console="true" (test clients are
  never at the console), then at_console="false", then context="mandatory"; several <policy> elements of the same
  user/group/context apply in file order.  "Policies applied later will override those applied
  earlier": the effective rule list is that concatenation and THE LAST MATCHING RULE DECIDES.
  Nothing is allowed when no rule matches.  The evaluator never removes a rule.
* send_* rules are evaluated on the sender's list, receive_* rules (and rules holding only
  eavesdrop=) on each recipient's list; own/own_prefix on RequestName; user/group on connecting
  (only in the default and mandatory contexts, default: the uid that owns the bus process).
* send_destination / receive_sender name the OWNER: the rule matches when the receiving (sending)
  connection is the primary or a queued owner of that name, whatever name the message was
  addressed to.  "*" matches every message.
* send_destination_prefix="a.b": the receiver is the primary or a queued owner of "a.b" or of a
  name starting with "a.b." (never "a.bc").  own_prefix: same word-boundary rule on the name.
* send_broadcast="true": signals without destination; "false": every message with a destination.
* The other attributes are by-value comparisons with the header field; "*" matches any message,
  with or without the field.
* send_interface / receive_interface asymmetry: "do NOT specify <deny send_interface=.../>! This
  will cause no-interface messages to be blocked" - a <deny> naming an interface also matches a
  message WITHOUT an interface field; an <allow> is a plain by-value match and therefore does not.
* [send|receive]_requested_reply is "ignored" unless the message is a reply (method_return /
  error).  <allow>: "true" (default) = only requested replies, "false" = any reply.  <deny>:
  "false" (default) = matches only replies that were NOT requested, "true" = always.
* eavesdrop on receive rules.  <allow>: "true" = matches also when eavesdropping, "false"
  (default) = only the specified recipient.  <deny>: "true" = only when eavesdropping, "false"
  (default) = always.  Eavesdropping = receiving a message that carries a destination owned by
  somebody else (never a broadcast).
* min_fds / max_fds: number of attached fds >= / <= the value.
* A reply is "requested" when it answers a method call that the replying connection received
  from the addressee, that did not carry NO_REPLY_EXPECTED, and that has not been answered yet.

Points on which the man page is silent - resolved explicitly (R) or excluded from generation (X)
-----------------------------------------------------------------------------------------------
 1 (R) a message lacking PATH / MEMBER / ERROR_NAME against a rule naming that field: the rule
       still matches (resolution fixed by DESIGN.md C06; only the interface case is documented).
       Decisions that depend on this resolution are counted (`silent1_dependent`).
 2 (R) messages addressed to the bus driver have no receiving connection: send_destination and
       send_destination_prefix are compared textually with "org.freedesktop.DBus"; likewise
       receive_sender for bus-originated messages.
 3 (X) order among several matching group= policies is documented as undefined: every test user
       is in exactly one group.
 4 (X) eavesdrop= on send rules, and whether a default (eavesdrop="false") <allow send_...> lets
       an eavesdropper receive: not generated / not judged.  An eavesdropping recipient is only
       judged when it must NOT receive under every reading (see eavesdrop_verdict()).
 5 (X) REPLY_SERIAL on method calls and signals: never generated.
 6 (R) whose names a send_destination(_prefix) rule sees when the connection that is about to get
       a copy is not the one named in the DESTINATION field (broadcast recipient, eavesdropper).
       The man page says the rule is about the connection, not the header field ("messages may
       not be sent to ... the *owner* of the given name, not that they may not be sent *to that
       name*") and that several connections can be recipients of one message: the sender's send
       rules are therefore evaluated once PER PROSPECTIVE RECIPIENT - the addressee, every
       broadcast recipient, every eavesdropper - with that connection's names.  A broadcast thus
       reaches exactly the listeners the sender may send it to; an eavesdropper never gets a copy
       of a message that the sender may not send to the eavesdropper itself.
       (X) remains: whether a connection that merely QUEUES for the addressed name "owns" it in
       the sense of the definition of eavesdropping - such an eavesdropper is judged only when its
       receive rules deny under both readings (see eavesdrop_verdict()).
 7 (X) whether a DENIED reply uses up the pending call: a call is answered at most once with its
       real serial unless that reply was delivered.
 8 (X) requested-reply status of a reply as seen by an eavesdropper: judged only when the
       decision is the same for both values.
 9 (X) unique names (":1.n") as rule values, at_console="true", selinux/apparmor, log=, activation.
10 (X) error replies for denied messages other than method calls (the property only prescribes
       AccessDenied for method calls); they are counted, not judged.

Data model (plain JSON-able values)
-----------------------------------
rule   = {"allow": bool, "attrs": {name: value}}            value "*" is the wildcard
block  = {"ctx": "default"|"mandatory"|"user"|"group"|"console_true"|"console_false",
          "who": user or group NAME (None for the other contexts), "rules": [rule],
          "who_xml": optional spelling used in the file (the numeric id)}
msg    = {"type": "method_call"|"method_return"|"signal"|"error", "path","iface","member","error":
          str or None, "dest": str or None, "nfds": int}
"""

DRIVER = "org.freedesktop.DBus"
REPLY_TYPES = ("method_return", "error")

SEND_ATTRS = ("send_interface", "send_member", "send_error", "send_broadcast", "send_destination",
              "send_destination_prefix", "send_type", "send_path", "send_requested_reply")
RECV_ATTRS = ("receive_interface", "receive_member", "receive_error", "receive_sender", "receive_type",
              "receive_path", "receive_requested_reply")
MOD_ATTRS = ("eavesdrop", "min_fds", "max_fds")


def kind_of(rule):
    """'send' | 'receive' | 'own' | 'connect' - as the man page classifies rules."""
    a = rule["attrs"]
    if any(k in a for k in SEND_ATTRS):
        return "send"
    if any(k in a for k in RECV_ATTRS):
        return "receive"
    if "own" in a or "own_prefix" in a:
        return "own"
    if "user" in a or "group" in a:
        return "connect"
    if "eavesdrop" in a:
        return "receive"     # "rules ... with the eavesdrop attribute and no others" are receive rules
    raise ValueError("rule without classifying attribute: %r" % (rule,))


def word_prefix(name, prefix):
    """'a.b' matches 'a.b', 'a.b.c', not 'a.bc'."""
    return name == prefix or name.startswith(prefix + ".")


def effective(blocks, user, groups, at_console=False):
    """Effective rule list (in evaluation order) for a connection of `user` (name) being in
    `groups` (names): default, group, user, at_console="true" (if at the console),
    at_console="false" (if not), mandatory - each in file order."""
    out = []
    for ctx in ("default", "group", "user", "console_true", "console_false", "mandatory"):
        if ctx == ("console_false" if at_console else "console_true"):
            continue
        for b in blocks:
            if b["ctx"] != ctx:
                continue
            if ctx == "group" and b["who"] not in groups:
                continue
            if ctx == "user" and b["who"] != user:
                continue
            for r in b["rules"]:
                out.append(r)
    return out


# --------------------------------------------------------------------------------------- matching

def _field(rule_value, msg_value, allow, interface=False, silent=None):
    """by-value comparison of one header field; None = rule does not name the field."""
    if rule_value is None or rule_value == "*":
        return True
    if msg_value is None:
        if interface:
            return not allow          # documented asymmetry
        if silent is not None:
            silent.append(1)
        return True                   # silent point 1
    return rule_value == msg_value


def _reply_ok(attr, allow, msg, requested):
    if msg["type"] not in REPLY_TYPES:
        return True                   # "ignored for other message types"
    if allow:
        v = True if attr is None else (attr == "true")
        return requested if v else True
    v = False if attr is None else (attr == "true")
    return True if v else (not requested)


def _fds_ok(a, msg):
    if "min_fds" in a and msg["nfds"] < int(a["min_fds"]):
        return False
    if "max_fds" in a and msg["nfds"] > int(a["max_fds"]):
        return False
    return True


def _eavesdrop_ok(a, allow, eavesdropping):
    v = a.get("eavesdrop", "false") == "true"
    if allow:
        return True if v else (not eavesdropping)
    return eavesdropping if v else True


def send_matches(rule, msg, receiver_names, requested, silent=None):
    """receiver_names: set of names the receiving connection is primary or queued owner of
    (its unique name included); None for the bus driver (textual comparison)."""
    a, allow = rule["attrs"], rule["allow"]
    t = a.get("send_type")
    if t is not None and t != "*" and t != msg["type"]:
        return False
    if not _reply_ok(a.get("send_requested_reply"), allow, msg, requested):
        return False
    if not _field(a.get("send_path"), msg["path"], allow, silent=silent):
        return False
    if not _field(a.get("send_interface"), msg["iface"], allow, interface=True):
        return False
    if not _field(a.get("send_member"), msg["member"], allow, silent=silent):
        return False
    if not _field(a.get("send_error"), msg["error"], allow, silent=silent):
        return False
    b = a.get("send_broadcast")
    if b is not None:
        is_bcast = msg["type"] == "signal" and msg["dest"] is None
        if b == "true" and not is_bcast:
            return False
        if b == "false" and msg["dest"] is None:
            return False
    d = a.get("send_destination")
    if d is not None and d != "*":
        if receiver_names is None:
            if msg["dest"] != d:
                return False
        elif d not in receiver_names:
            return False
    p = a.get("send_destination_prefix")
    if p is not None:
        if receiver_names is None:
            if msg["dest"] is None or not word_prefix(msg["dest"], p):
                return False
        elif not any(word_prefix(n, p) for n in receiver_names if not n.startswith(":")):
            return False
    return _fds_ok(a, msg)


def receive_matches(rule, msg, sender_names, requested, eavesdropping, silent=None):
    """sender_names: names the sending connection owns (primary or queued, unique included);
    None when the bus driver is the sender (textual)."""
    a, allow = rule["attrs"], rule["allow"]
    t = a.get("receive_type")
    if t is not None and t != "*" and t != msg["type"]:
        return False
    if not _eavesdrop_ok(a, allow, eavesdropping):
        return False
    if not _reply_ok(a.get("receive_requested_reply"), allow, msg, requested):
        return False
    if not _field(a.get("receive_path"), msg["path"], allow, silent=silent):
        return False
    if not _field(a.get("receive_interface"), msg["iface"], allow, interface=True):
        return False
    if not _field(a.get("receive_member"), msg["member"], allow, silent=silent):
        return False
    if not _field(a.get("receive_error"), msg["error"], allow, silent=silent):
        return False
    s = a.get("receive_sender")
    if s is not None and s != "*":
        if sender_names is None:
            if s != DRIVER:
                return False
        elif s not in sender_names:
            return False
    return _fds_ok(a, msg)


def own_matches(rule, name):
    a = rule["attrs"]
    if "own" in a:
        return a["own"] == "*" or a["own"] == name
    return word_prefix(name, a["own_prefix"])


class Decision(object):
    """allowed + the deciding rule (None = nothing matched) and its position among the rules of
    the same kind in the effective list."""
    __slots__ = ("allowed", "rule", "pos", "n", "silent")

    def __init__(self, allowed, rule, pos, n, silent):
        self.allowed, self.rule, self.pos, self.n, self.silent = allowed, rule, pos, n, silent

    def label(self):
        if self.rule is None:
            return "none"
        return ("allow" if self.rule["allow"] else "deny") + "(" + ",".join(sorted(self.rule["attrs"])) + ")"

    def where(self):
        if self.rule is None:
            return "no-match"
        if self.n == 1:
            return "only"
        if self.pos == self.n - 1:
            return "last"
        if self.pos == 0:
            return "first"
        return "middle"


def _scan(rules, kind, pred):
    same = [r for r in rules if kind_of(r) == kind]
    win, wpos = None, -1
    for i, r in enumerate(same):
        if pred(r):
            win, wpos = r, i
    return win, wpos, len(same)


def check_send(rules, msg, receiver_names, requested):
    silent = []
    win, pos, n = _scan(rules, "send", lambda r: send_matches(r, msg, receiver_names, requested))
    if win is not None:
        send_matches(win, msg, receiver_names, requested, silent)
    return Decision(bool(win and win["allow"]), win, pos, n, bool(silent))


def check_receive(rules, msg, sender_names, requested, eavesdropping=False):
    silent = []
    win, pos, n = _scan(rules, "receive",
                        lambda r: receive_matches(r, msg, sender_names, requested, eavesdropping))
    if win is not None:
        receive_matches(win, msg, sender_names, requested, eavesdropping, silent)
    return Decision(bool(win and win["allow"]), win, pos, n, bool(silent))


def check_own(rules, name):
    win, pos, n = _scan(rules, "own", lambda r: own_matches(r, name))
    return Decision(bool(win and win["allow"]), win, pos, n, False)


def check_connect(blocks, user, groups, is_bus_owner):
    """user/group rules of the default then the mandatory contexts; default = owner of the bus."""
    allowed, win, pos, n = bool(is_bus_owner), None, -1, 0
    for ctx in ("default", "mandatory"):
        for b in blocks:
            if b["ctx"] != ctx:
                continue
            for r in b["rules"]:
                a = r["attrs"]
                if "user" in a:
                    n += 1
                    if a["user"] == "*" or a["user"] == user:
                        allowed, win, pos = r["allow"], r, n - 1
                elif "group" in a:
                    n += 1
                    if a["group"] == "*" or a["group"] in groups:
                        allowed, win, pos = r["allow"], r, n - 1
    return Decision(allowed, win, pos, n, False)


class EavesVerdict(object):
    """must_not: the eavesdropper gets no copy under every reading of silent points 4, 6(X), 8.
    send / recv: the decisions (requested=False, eavesdropping=True) for the evidence;
    send_denied / recv_denied: denied for every value of the undetermined inputs."""
    __slots__ = ("must_not", "send_denied", "recv_denied", "send", "recv")


def eavesdrop_verdict(sender_rules, eaves_rules, msg, sender_names, eaves_names, queued_for_addressed=False):
    """The copy of a unicast message for an eavesdropping connection (silent point 6: the sender's
    send rules see the EAVESDROPPER's names).  Denied for sure when the eavesdropper's own receive
    rules deny (eavesdropping; both values of `requested`; also as a non-eavesdropper when it queues
    for the addressed name) or when the sender's send rules with it as receiver deny (both values
    of `requested`)."""
    vals = (True, False) if msg["type"] in REPLY_TYPES else (False,)
    modes = (True, False) if queued_for_addressed else (True,)
    v = EavesVerdict()
    v.recv_denied = all(not check_receive(eaves_rules, msg, sender_names, q, m).allowed for q in vals for m in modes)
    v.send_denied = all(not check_send(sender_rules, msg, eaves_names, q).allowed for q in vals)
    v.send = check_send(sender_rules, msg, eaves_names, False)
    v.recv = check_receive(eaves_rules, msg, sender_names, False, True)
    v.must_not = v.recv_denied or v.send_denied
    return v


def must_not_eavesdrop(sender_rules, eaves_rules, msg, sender_names, eaves_names, queued_for_addressed=False):
    """True when an eavesdropper is denied under every reading of silent points 4, 6(X) and 8."""
    return eavesdrop_verdict(sender_rules, eaves_rules, msg, sender_names, eaves_names, queued_for_addressed).must_not


def names_destination_rule(rule):
    """The rule is qualified by a name-specific destination (not '*')."""
    if rule is None:
        return False
    a = rule["attrs"]
    return a.get("send_destination") not in (None, "*") or "send_destination_prefix" in a


# ----------------------------------------------------------------------------- config rendering

def xml_escape(s):
    return s.replace("&", "&amp;").replace("<", "&lt;").replace(">", "&gt;").replace('"', "&quot;")


def render(blocks):
    """<policy> elements for the blocks, in list (= file) order."""
    out = []
    for b in blocks:
        if b["ctx"] in ("default", "mandatory"):
            out.append('  <policy context="%s">' % b["ctx"])
        elif b["ctx"] in ("console_true", "console_false"):
            out.append('  <policy at_console="%s">' % b["ctx"][8:])
        else:
            out.append('  <policy %s="%s">' % (b["ctx"], xml_escape(str(b.get("who_xml") or b["who"]))))
        for r in b["rules"]:
            out.append("    <%s %s/>" % ("allow" if r["allow"] else "deny",
                                         " ".join('%s="%s"' % (k, xml_escape(str(v))) for k, v in r["attrs"].items())))
        out.append("  </policy>")
    return "\n".join(out) + "\n"
