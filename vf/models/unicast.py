"""Oracle for unicast routing (C05), written from the 'Message Bus Message Routing' / 'Message Bus Names' text of the
specification and the statement of C05.  Pure: it only looks at what every connection read, in the order it read it.

Inputs
  tokens   list of Token: every probe that was completely written to a socket
  views    list of View: one per test connection (frames = wire.Message in arrival order)
  obs      frames read by a bystander that holds a NameOwnerChanged match rule from before the first test connection
  marks    marks[r] = number of observer frames read when round r started; marks[-1] = total (len = rounds + 1)

Judgement per token (see DESIGN.md C05):
  * every delivery must be to a connection that, by the NameAcquired / NameLost signals in ITS OWN stream, owned the
    destination at that position of its stream (unique names: its own unique name);
  * body, message type and header fields 1..6, 8, 9 identical to what was sent;
  * per (sender, recipient) deliveries in send order;
  * a connection reads a token at most once whatever match rules it holds; a connection that does not own the
    destination may read one copy only if it holds an eavesdrop='true' rule selecting the message (counted apart);
  * accounted exactly once: one addressed delivery XOR one error from the bus to the sender (REPLY_SERIAL = the token's serial);
    NoReply for a call that went to a connection which later closed its socket is not an 'error' in this sense;
  * nothing at all is acceptable only if (a) the sender or a possible addressee closed its socket in the round in
    which the token was sent, or (b) the token is not a method call and the destination had no owner at some moment
    of that round according to the observer's NameOwnerChanged stream (an error is then allowed but not required).
"""
import collections

BUS = b"org.freedesktop.DBus"
NOREPLY = b"org.freedesktop.DBus.Error.NoReply"
TYPE_NAME = {1: "call", 2: "return", 3: "error", 4: "signal"}


class Token(object):
    __slots__ = ("tid", "sender", "seq", "serial", "mtype", "flags", "dest", "destkind", "round", "msg", "expect",
                 "outcome", "note")

    def __init__(self, tid, sender, seq, serial, mtype, flags, dest, destkind, rnd, msg, expect=None, note=""):
        self.tid, self.sender, self.seq, self.serial, self.mtype, self.flags = tid, sender, seq, serial, mtype, flags
        self.dest, self.destkind, self.round, self.msg, self.expect = dest, destkind, rnd, msg, expect
        self.outcome = None
        self.note = note

    def kind(self):
        return "%s:%s" % (TYPE_NAME.get(self.mtype, "?"), self.destkind)

    def describe(self):
        return "token=%s %s flags=%d round=%d from=#%d serial=%d dest=%s%s" % (
            self.tid.decode(), self.kind(), self.flags, self.round, self.sender, self.serial,
            self.dest.decode("latin1"), self.note)


class View(object):
    def __init__(self, idx, unique):
        self.idx = idx
        self.unique = unique
        self.frames = []            # wire.Message, arrival order
        self.closed_round = None    # round in which the test closed this socket (None: alive to the end)
        self.requested = {}         # well-known name -> first round in which this connection asked for it
        self.rules = []             # match rules held from set-up on (parse_simple_rule dicts)
        self.last_serial = 0        # serials 1..last_serial were completely written by this connection
        self.peer_serials = set()   # serials of tokens addressed to peers (everything else went to the driver)


SIDE_IFACE = b"com.example.Exit"     # frames of checks/c05.py's send-and-exit bursts: judged there


def token_of(m, tokens):
    if m.body and isinstance(m.body[0], bytes) and m.body[0] in tokens:
        return m.body[0]
    mem = m.known().get(3)
    if mem is not None and mem in tokens:
        return mem
    return None


def compare(sent, got):
    """List of what differs between a sent and a received wire.Message, SENDER excluded."""
    diffs = []
    if sent.type != got.type:
        diffs.append("type")
    ks, kg = sent.known(), got.known()
    names = {1: "path", 2: "interface", 3: "member", 4: "error-name", 5: "reply-serial", 6: "destination",
             8: "signature", 9: "unix-fds"}
    for code, nm in names.items():
        if ks.get(code) != kg.get(code):
            # an absent SIGNATURE and an empty one mean the same thing
            if code == 8 and (ks.get(8) or b"") == (kg.get(8) or b""):
                continue
            diffs.append(nm)
    if list(sent.body) != list(got.body):
        diffs.append("body")
    for code, v in got.fields:
        if code > 9 or code == 0:
            diffs.append("foreign-field")
            break
    return diffs


def ownership_gaps(obs, marks):
    """From the observer's NameOwnerChanged stream: name -> set of rounds in which the name had no owner at some moment
    (round -1 = set-up), name -> {round: number of owner changes}, and the set of names that ever had an owner."""
    bounds = [0] + list(marks)
    nrounds = len(marks) - 1
    events = collections.defaultdict(list)
    first_old = {}
    for r in range(-1, nrounds):
        for m in obs[bounds[r + 1]:bounds[r + 2]]:
            k = m.known()
            if m.type == 4 and k.get(7) == BUS and k.get(3) == b"NameOwnerChanged" and len(m.body) == 3:
                name, old, new = m.body
                first_old.setdefault(name, old)
                events[r].append((name, old, new))
    owner = dict(first_old)
    gaps = collections.defaultdict(set)
    changes = collections.defaultdict(collections.Counter)
    for r in range(-1, nrounds):
        for name, o in owner.items():
            if o == b"":
                gaps[name].add(r)
        for name, old, new in events[r]:
            owner[name] = new
            changes[name][r] += 1
            if new == b"":
                gaps[name].add(r)
    return gaps, changes, set(first_old)


RULE_TYPE = {1: b"method_call", 2: b"method_return", 3: b"error", 4: b"signal"}


def parse_simple_rule(text):
    """The match rules C05 hands out only use type / interface / member / path / eavesdrop with plainly quoted values."""
    d = {}
    for part in text.split(b","):
        k, v = part.split(b"=", 1)
        d[k] = v.strip(b"'")
    return d


def rule_matches(rule, m):
    """Does a (simple) rule select the message as sent?  Only the keys above; eavesdrop is not a selector."""
    k = m.known()
    if b"type" in rule and RULE_TYPE.get(m.type) != rule[b"type"]:
        return False
    if b"interface" in rule and k.get(2) != rule[b"interface"]:
        return False
    if b"member" in rule and k.get(3) != rule[b"member"]:
        return False
    if b"path" in rule and k.get(1) != rule[b"path"]:
        return False
    return True


def eavesdrops(v, m):
    return any(r.get(b"eavesdrop") == b"true" and rule_matches(r, m) for r in v.rules)


def judge(tokens, views, obs, marks, unreliable=()):
    """Returns (violations, stats, sigs): violations = list of (key, what, token or None, view idx or None).
    unreliable: indices of views whose own NameAcquired/NameLost stream is known to be incomplete (the bus logged that it
    dropped a signal it had originated for them); the recipient-is-owner clause is not judged for those.

    Every sighting of a token by a connection is classified: 'addressed' (the connection owned the destination at that
    point of its own stream), 'eavesdropped' (it did not, but holds an eavesdrop='true' rule selecting the message: it
    has been granted eavesdropping and may see ONE copy) or misdelivered.  Whatever rules a connection holds, it must
    see a token at most once."""
    V = []
    stats = collections.Counter()
    sigs = set()
    by_tid = {t.tid: t for t in tokens}
    by_serial = {(t.sender, t.serial): t for t in tokens}
    view_of = {v.idx: v for v in views}
    by_unique = {v.unique: v for v in views}
    nrounds = len(marks) - 1
    sightings = collections.defaultdict(list)        # tid -> [(view idx, position, class)]
    bus_errors = collections.defaultdict(list)       # tid -> [error name]
    bus_replies = collections.defaultdict(lambda: collections.defaultdict(list))   # view idx -> reply serial -> [msg]

    for v in views:
        owned = {v.unique}
        last = {}
        is_eaves = any(r.get(b"eavesdrop") == b"true" for r in v.rules)
        for pos, m in enumerate(v.frames):
            k = m.known()
            snd = k.get(7)
            if snd == BUS:
                if k.get(6) is not None and k.get(6) != v.unique:
                    # bus-originated traffic for somebody else (only an eavesdropper may be shown it)
                    if is_eaves:
                        stats["eavesdropped-bus-frames"] += 1
                    else:
                        V.append(("bus-frame-for-another-connection", "connection #%d read a bus-originated frame addressed to %r"
                                  % (v.idx, k.get(6)), None, v.idx))
                    continue
                if m.type == 4 and k.get(2) == BUS and len(m.body) == 1:
                    if k.get(3) == b"NameAcquired":
                        owned.add(m.body[0])
                    elif k.get(3) == b"NameLost":
                        owned.discard(m.body[0])
                elif m.type in (2, 3) and k.get(5) is not None:
                    rs = k.get(5)
                    bus_replies[v.idx][rs].append(m)
                    t = by_serial.get((v.idx, rs))
                    if t is not None and t.destkind != "driver":
                        if m.type == 3:
                            bus_errors[t.tid].append(k.get(4) or b"?")
                        else:
                            V.append(("bus-return-for-peer-message:%s" % t.kind(),
                                      "the bus answered a message addressed to a peer with a METHOD_RETURN", t, v.idx))
                continue
            tid = token_of(m, by_tid)
            if tid is None:
                if k.get(6) == BUS and eavesdrops(v, m):
                    stats["eavesdropped-calls-to-the-driver"] += 1      # somebody's RequestName / barrier / ...
                    continue
                if k.get(2) == SIDE_IFACE:
                    stats["side-scenario-frames(judged by their own monitor)"] += 1
                    continue
                V.append(("unattributable-frame:%s" % TYPE_NAME.get(m.type, "other"),
                          "connection #%d read a frame that is neither bus-originated nor carries a token: type=%d fields=%r"
                          % (v.idx, m.type, m.fields), None, v.idx))
                continue
            t = by_tid[tid]
            stats["deliveries-checked"] += 1
            granted = eavesdrops(v, t.msg)
            if t.destkind != "driver" and t.dest in owned:
                cls = "addressed"
            elif granted:
                cls = "eavesdropped"
                stats["eavesdropped-copies"] += 1
            elif t.destkind == "driver":
                cls = "misdelivered"
                V.append(("driver-call-delivered-to-client", "a call addressed to org.freedesktop.DBus was delivered to #%d" % v.idx, t, v.idx))
            elif v.idx in unreliable:
                cls = "addressed"
                stats["ownership-unjudged:bus-signal-to-recipient-dropped"] += 1
            else:
                cls = "misdelivered"
                who = "other-connection"
                if t.dest in v.requested or t.dest == v.unique:
                    who = "not-owner-at-that-point"
                V.append(("wrong-recipient:%s:%s" % (t.destkind, who),
                          "delivered to #%d (%s), which by its own NameAcquired/NameLost stream did not own %s at that point "
                          "(it owned %r) and holds no eavesdrop rule selecting the message"
                          % (v.idx, v.unique.decode(), t.dest.decode("latin1"), sorted(owned)), t, v.idx))
            sightings[tid].append((v.idx, pos, cls))
            if cls == "addressed" and granted:
                stats["addressed-recipient-held-a-matching-eavesdrop-rule"] += 1
                stats["addressed+eavesdrop-rule:" + TYPE_NAME.get(t.mtype, "?") + (":no-reply" if t.mtype == 1 and t.flags & 1 else "")] += 1
            elif cls == "addressed" and v.rules:
                stats["addressed-recipient-held-other-rules"] += 1
            d = compare(t.msg, m)
            if d:
                V.append(("altered:%s:%s" % (TYPE_NAME.get(t.mtype, "?"), ",".join(d)),
                          "delivered frame differs from the sent one in %s" % ", ".join(d), t, v.idx))
            prev = last.get(t.sender)
            if prev is not None and prev > t.seq:
                V.append(("out-of-order:%s" % t.destkind,
                          "#%d read token seq %d of sender #%d after seq %d" % (v.idx, t.seq, t.sender, prev), t, v.idx))
            if prev is None or t.seq > prev:
                last[t.sender] = t.seq

    gaps, changes, seen_names = ownership_gaps(obs, marks)

    def closed_in(name, rnd, later=False):
        """did a possible addressee of `name` close its socket in round rnd (or, with later, in any round >= rnd)?"""
        cands = []
        if name in by_unique:
            cands.append(by_unique[name])
        for v in views:
            r0 = v.requested.get(name)
            if r0 is not None and r0 <= rnd:
                cands.append(v)
        for v in cands:
            if v.closed_round is not None and (v.closed_round == rnd or (later and v.closed_round >= rnd)):
                return True
        return False

    for t in tokens:
        sv = view_of[t.sender]
        seen = sightings.get(t.tid, [])
        # exactly once per connection, whatever rules it holds
        per_conn = collections.Counter(i for i, _, _ in seen)
        for i, n in sorted(per_conn.items()):
            if n > 1:
                held = "holding-eavesdrop-rule" if eavesdrops(view_of[i], t.msg) else ("holding-rules" if view_of[i].rules else "no-rules")
                V.append(("delivered-%d-times:%s:one-connection:%s" % (n, t.kind(), held),
                          "connection #%d read the token %d times (classes %s)" % (i, n, [c for j, _, c in seen if j == i]), t, i))
        dl = [(i, pos) for i, pos, c in seen if c == "addressed"]
        if t.destkind == "driver" and t.mtype == 4:
            # signal addressed to the bus: no answer; a copy at a connection without an eavesdrop rule was already
            # reported as driver-call-delivered-to-client when its frame was read
            reps = bus_replies[t.sender].get(t.serial, [])
            if reps:
                V.append(("signal-to-the-bus-answered", "a signal addressed to org.freedesktop.DBus was answered %d times" % len(reps), t, t.sender))
            t.outcome = "driver:signal-ignored"
            stats["outcome:" + t.outcome] += 1
            sigs.add(("driver", "signal", t.outcome, bool(seen)))
            continue
        if t.destkind == "driver":
            reps = bus_replies[t.sender].get(t.serial, [])
            if sv.closed_round is not None:
                t.outcome = "driver:sender-closed"
            elif len(reps) != 1:
                V.append(("driver-call-replies:%d" % len(reps), "a call to the driver was answered %d times" % len(reps), t, t.sender))
                t.outcome = "driver:bad"
            else:
                why = t.expect(reps[0]) if t.expect is not None else None
                if why:
                    V.append(("driver-answer-wrong:%s" % t.note.strip().split("=")[-1], "driver answered %s" % why, t, t.sender))
                t.outcome = "driver:answered"
            stats["outcome:" + t.outcome] += 1
            sigs.add(("driver", t.note.strip(), t.outcome, bool(seen)))
            continue
        errs = list(bus_errors.get(t.tid, []))
        noreply = []
        recips = set(i for i, _ in dl)
        if dl:
            if len(recips) > 1:
                V.append(("delivered-%d-times:%s:several-connections" % (len(recips), t.kind()),
                          "token delivered as addressed message to %d connections (%s)" % (len(recips), sorted(recips)), t, dl[0][0]))
            # NoReply is legitimate once the connection the call went to has closed its socket
            if any(view_of[i].closed_round is not None for i in recips):
                noreply = [e for e in errs if e == NOREPLY]
                errs = [e for e in errs if e != NOREPLY]
        else:
            if t.mtype == 1 and closed_in(t.dest, t.round, later=True) and errs == [NOREPLY]:
                noreply, errs = errs, []
        if len(noreply) > 1:
            V.append(("error-twice:%s" % t.kind(), "NoReply sent %d times for one call" % len(noreply), t, t.sender))
        if len(errs) > 1:
            V.append(("error-twice:%s" % t.kind(), "the bus sent %d errors (%s) for one message" % (
                len(errs), b",".join(errs).decode("latin1")), t, t.sender))
        if dl and errs:
            V.append(("delivered-and-errored:%s" % t.kind(), "token was delivered to #%d AND answered with %s" % (
                dl[0][0], errs[0].decode("latin1")), t, t.sender))
        sender_closed = sv.closed_round is not None and sv.closed_round == t.round
        if dl:
            t.outcome = "delivered" + ("+noreply-after-close" if noreply else "")
        elif errs:
            t.outcome = "errored"
            stats["error:" + errs[0].decode("latin1").rsplit(".", 1)[-1]] += 1
        elif noreply:
            t.outcome = "noreply-after-close"
        elif sender_closed:
            t.outcome = "lost-excused:sender-closed"
        elif closed_in(t.dest, t.round):
            t.outcome = "lost-excused:addressee-closed"
        elif t.mtype != 1 and t.round in gaps.get(t.dest, set()) | (set(range(-1, nrounds)) if t.dest not in seen_names and t.dest not in by_unique else set()):
            t.outcome = "silent:no-owner-and-not-a-call"
        else:
            t.outcome = "lost"
            if t.mtype == 1:
                V.append(("call-neither-delivered-nor-errored:%s" % t.destkind,
                          "a method call got no delivery and no error reply although no possible addressee closed its socket", t, t.sender))
            else:
                V.append(("lost:%s" % t.kind(), "a message whose destination had an owner throughout the round was neither "
                          "delivered nor answered with an error, and nobody closed a socket", t, t.sender))
        stats["outcome:" + t.outcome] += 1
        stats["%s:%s" % (t.outcome.split(":")[0].split("+")[0], TYPE_NAME.get(t.mtype))] += 1
        raced = changes.get(t.dest, {}).get(t.round, 0)
        if raced and t.destkind == "well-known":
            stats["tokens-racing-an-ownership-change"] += 1
            if dl:
                stats["delivered-while-ownership-changed"] += 1
        rules_of_recipient = 0
        for i in recips:
            rules_of_recipient = 2 if eavesdrops(view_of[i], t.msg) else max(rules_of_recipient, 1 if view_of[i].rules else 0)
        sigs.add((t.mtype, t.flags & 3, t.destkind, t.outcome, min(raced, 2), rules_of_recipient,
                  any(c == "eavesdropped" for _, _, c in seen)))

    # deliveries of one name in one round that went to more than one connection = an observed hand-over under load
    split = collections.defaultdict(set)
    for t in tokens:
        for i, _, c in sightings.get(t.tid, []):
            if t.destkind == "well-known" and c == "addressed":
                split[(t.dest, t.round)].add(i)
    stats["rounds-with-deliveries-split-by-handover"] += sum(1 for s in split.values() if len(s) > 1)

    # reply multiplicity for everything a surviving connection asked the driver
    for v in views:
        if v.closed_round is not None:
            continue
        for rs in range(1, v.last_serial + 1):
            if rs in v.peer_serials or (v.idx, rs) in by_serial:
                continue
            n = len(bus_replies[v.idx].get(rs, []))
            stats["driver-calls-counted"] += 1
            if n != 1:
                V.append(("driver-call-replies:%d" % n, "serial %d of #%d (a call to the driver) was answered %d times" % (rs, v.idx, n), None, v.idx))
    return V, stats, sigs
