"""Comparison of harness message dumps (hcommon.h) with the independent decoding (wire.py)."""
import struct
import sys

from . import wire

NATIVE = "<" if sys.byteorder == "little" else ">"

_FIELD_KEYS = [("path", wire.F_PATH), ("interface", wire.F_INTERFACE), ("member", wire.F_MEMBER),
               ("error_name", wire.F_ERROR_NAME), ("destination", wire.F_DESTINATION),
               ("sender", wire.F_SENDER), ("container_instance", wire.F_CONTAINER_INSTANCE),
               ("signature", wire.F_SIGNATURE)]


class DumpError(Exception):
    pass


def norm_value(j):
    """Normalise a harness value dump, checking the redundant accessors against each other."""
    t = j[0]
    if t == "a":
        items = [norm_value(x) for x in j[2]]
        if len(j) > 3 and j[3] != len(items):
            raise DumpError("element-count %r != walked %d" % (j[3], len(items)))
        if len(j) > 4:
            fixed_hex, n = j[4], j[5]
            code = j[1].encode()[0]
            size, f = wire.BASIC_FIXED[code]
            if code != ord('h'):
                if n != len(items):
                    raise DumpError("fixed-array n %r != walked %d" % (n, len(items)))
                want = b"".join(struct.pack(NATIVE + f, x[1]) for x in items).hex()
                if want != fixed_hex:
                    raise DumpError("fixed-array bytes differ from element walk")
        return ["a", j[1], items]
    if t in ("r", "e"):
        return [t, [norm_value(x) for x in j[1]]]
    if t == "v":
        return ["v", j[1], norm_value(j[2])]
    if t == "h":
        return ["h", None]
    return [t, j[1]]


def _strip_h(j):
    t = j[0]
    if t == "a":
        return ["a", j[1], [_strip_h(x) for x in j[2]]]
    if t in ("r", "e"):
        return [t, [_strip_h(x) for x in j[1]]]
    if t == "v":
        return ["v", j[1], _strip_h(j[2])]
    if t == "h":
        return ["h", None]
    return j


def expected_dump(m):
    """What hc_dump_message must print for wire.Message m (first occurrence of each field)."""
    k = m.known()
    d = {"type": m.type, "serial": m.serial, "reply_serial": k.get(wire.F_REPLY_SERIAL, 0),
         "no_reply": 1 if m.flags & 1 else 0, "auto_start": 0 if m.flags & 2 else 1,
         "interactive": 1 if m.flags & 4 else 0}
    for name, code in _FIELD_KEYS:
        v = k.get(code)
        d[name] = v.hex() if isinstance(v, (bytes, bytearray)) else None
    if d["signature"] is None:
        d["signature"] = ""
    d["body"] = [_strip_h(x) for x in wire.jbody(m.body_sig, m.body)]
    return d


def compare(m, hd, dup_codes=()):
    """Return list of differing accessor names between expectation for wire.Message m and the
    harness dump hd."""
    exp = expected_dump(m)
    diffs = []
    for key in ("type", "serial", "reply_serial", "no_reply", "auto_start", "interactive"):
        if key == "reply_serial" and wire.F_REPLY_SERIAL in dup_codes:
            continue
        if exp[key] != hd.get(key):
            diffs.append(key)
    for name, code in _FIELD_KEYS:
        if code in dup_codes:
            continue
        if name == "container_instance" and not isinstance(m.known().get(code), (bytes, bytearray)):
            continue
        if exp[name] != hd.get(name):
            diffs.append(name)
    try:
        body = [norm_value(x) for x in hd.get("body", [])]
    except DumpError as e:
        diffs.append("iterator-inconsistent:" + str(e).split(" ")[0])
        body = None
    if body is not None and body != exp["body"]:
        diffs.append("body")
    return diffs


def dup_known_codes(m):
    seen, dup = set(), set()
    for c, _ in m.fields:
        if 1 <= c <= 10:
            if c in seen:
                dup.add(c)
            seen.add(c)
    return dup


class StreamExpect(object):
    """Oracle framing of a byte stream: frames = [(offset, Result)], terminal state."""

    def __init__(self, data, nfds=0):
        self.frames = []
        off = 0
        self.terminal = "clean"
        self.reason = None
        self.term_off = 0
        n = len(data)
        while off < n:
            chunk = data[off:]
            r = wire.validate(chunk, nfds)
            if r.kind == wire.VALID:
                self.frames.append((off, r))
                off += r.need
                continue
            self.term_off = off
            self.reason = r.reason
            if r.kind == wire.UNSPECIFIED:
                self.terminal = "unspecified"
                self.unspec_result = r
            elif r.kind == wire.INCOMPLETE:
                self.terminal = "incomplete"
            else:
                # INVALID: is the frame complete (so rejection is due now)?
                total = None
                fixed_bad = False
                if len(chunk) >= 16:
                    try:
                        total = wire.frame_length(chunk, array_limit=False)
                    except wire.Invalid:
                        fixed_bad = True
                if fixed_bad or (total is not None and len(chunk) >= total):
                    self.terminal = "invalid"
                else:
                    self.terminal = "invalid-prefix"
            break
        self.consumed = off
