"""Exact-length generators of syntactically valid names (written from the specification's grammars,
checked against vf/wire.py's predicates before they are handed out).  Used by C02 and C12, where the
marshalled length of a header-field value matters (8-byte padding boundaries, 255-byte maximum)."""
from . import wire

_ALPHA = b"ABCDEFGHIJKLMNOPQRSTUVWXYZabcdefghijklmnopqrstuvwxyz_"
_ALNUM = _ALPHA + b"0123456789"


def _elements(rng, n, sep, first_chars, other_chars, min_elems, more=True):
    """n bytes made of >= min_elems non-empty elements joined by sep (one byte)."""
    if n < 2 * min_elems - 1:
        raise ValueError("too short")
    # choose separator positions: interior, non-adjacent
    max_seps = (n - 1) // 2
    want = min_elems - 1
    if more and max_seps > want and rng.random() < 0.7:
        want = rng.randint(want, min(max_seps, want + rng.choice([0, 1, 2, 5, 40])))
    seps = set()
    tries = 0
    while len(seps) < want and tries < 20 * (want + 1):
        tries += 1
        p = rng.randint(1, n - 2) if n >= 3 else None
        if p is None:
            break
        if p in seps or (p - 1) in seps or (p + 1) in seps:
            continue
        seps.add(p)
    if len(seps) < min_elems - 1:
        # deterministic fallback: a.a.a....rest
        seps = set(range(1, 2 * (min_elems - 1), 2))
    out = bytearray()
    start = True
    for i in range(n):
        if i in seps:
            out.append(sep)
            start = True
        else:
            out.append(rng.choice(first_chars if start else other_chars))
            start = False
    return bytes(out)


def interface_of_len(rng, n):
    """valid interface / error name of exactly n bytes (3 <= n <= 255)."""
    s = _elements(rng, n, 0x2E, _ALPHA, _ALNUM, 2)
    assert len(s) == n and wire.valid_interface(s), s
    return s


def member_of_len(rng, n):
    """valid member name of exactly n bytes (1 <= n <= 255)."""
    s = _elements(rng, n, 0x2E, _ALPHA, _ALNUM, 1, more=False)
    assert len(s) == n and wire.valid_member(s), s
    return s


def busname_of_len(rng, n):
    """valid bus name of exactly n bytes (3 <= n <= 255); unique (':' prefix) when n >= 4 at random."""
    if n >= 4 and rng.random() < 0.4:
        s = b":" + _elements(rng, n - 1, 0x2E, _ALNUM + b"-", _ALNUM + b"-", 2)
    else:
        s = _elements(rng, n, 0x2E, _ALPHA + b"-", _ALNUM + b"-", 2)
    assert len(s) == n and wire.valid_bus_name(s), s
    return s


def path_of_len(rng, n):
    """valid object path of exactly n bytes (every n >= 1 is possible)."""
    if n == 1:
        return b"/"
    s = b"/" + _elements(rng, n - 1, 0x2F, _ALNUM, _ALNUM, 1)
    assert len(s) == n and wire.valid_path(s), s
    if s in (wire.LOCAL_PATH,):
        return path_of_len(rng, n)
    return s


MIN_LEN = {"path": 1, "interface": 3, "member": 1, "error_name": 3, "destination": 3, "sender": 3,
           "container_instance": 1}
MAX_LEN = {"path": None, "interface": 255, "member": 255, "error_name": 255, "destination": 255, "sender": 255,
           "container_instance": None}

_GEN = {"path": path_of_len, "interface": interface_of_len, "member": member_of_len,
        "error_name": interface_of_len, "destination": busname_of_len, "sender": busname_of_len,
        "container_instance": path_of_len}


def of_len(rng, kind, n):
    """Name of the given kind with length n clamped into the legal range of that kind."""
    n = max(MIN_LEN[kind], n)
    if MAX_LEN[kind] is not None:
        n = min(MAX_LEN[kind], n)
    s = _GEN[kind](rng, n)
    if kind == "interface" and s == wire.LOCAL_IFACE:
        return of_len(rng, kind, n)
    return s
