"""A scripted D-Bus *peer* (not a bus) for client-side checks (C17).

Listens on a unix socket in a run directory, accepts one connection at a time, speaks the SERVER
side of SASL minimally and then exchanges raw D-Bus messages using the independent codec in
vf/wire.py.  The libdbus client under test connects with
dbus_connection_open_private("unix:path=<rundir>/peer").

The peer is passive and single-threaded: the owner calls step(timeout) from its own select loop
(or run_until(predicate)); incoming messages are handed to `on_message(peer, msg)`, which may
schedule outgoing bytes with send_at(delay_s, data) or close_at(delay_s).
"""
import heapq
import os
import select
import socket
import time

from . import wire
from .wire import Variant

GUID = "5a1b0c0ffee0d15ea5e0ddba11c0ffee"


class Peer(object):
    def __init__(self, rundir, name="peer"):
        self.path = os.path.join(rundir, name)
        try:
            os.unlink(self.path)
        except OSError:
            pass
        self.lsock = socket.socket(socket.AF_UNIX, socket.SOCK_STREAM)
        self.lsock.bind(self.path)
        self.lsock.listen(8)
        self.lsock.setblocking(False)
        self.address = "unix:path=" + self.path
        self.conn = None
        self.on_message = None
        self.serial = 0
        self._reset()

    # ------------------------------------------------------------------ state
    def _reset(self):
        self.inbuf = b""
        self.authed = False
        self.begun = False
        self.closed_by_client = False
        self.closed_by_us = False
        self.queue = []          # heap of (due, n, kind, data)
        self._n = 0
        self.received = []       # decoded wire.Message objects
        self.sent_log = []       # (monotonic time, bytes)
        self.protocol_errors = []
        self.auth_lines = []

    def new_case(self):
        """drop the current connection (if any) and forget everything about it"""
        if self.conn is not None:
            try:
                self.conn.close()
            except OSError:
                pass
        self.conn = None
        self._reset()

    def close(self):
        self.new_case()
        try:
            self.lsock.close()
        finally:
            try:
                os.unlink(self.path)
            except OSError:
                pass

    def next_serial(self):
        self.serial = (self.serial % 0x7FFFFFFF) + 1
        return self.serial

    # ------------------------------------------------------------------ scheduling
    def send_at(self, delay_s, data):
        self._n += 1
        heapq.heappush(self.queue, (time.monotonic() + max(0.0, delay_s), self._n, "send", data))

    def close_at(self, delay_s, flush=True):
        """close the socket after delay; flush=False drops anything still scheduled"""
        self._n += 1
        heapq.heappush(self.queue, (time.monotonic() + max(0.0, delay_s), self._n, "close" if flush else "close-drop", b""))

    def fileno_list(self):
        return [self.lsock] + ([self.conn] if self.conn is not None else [])

    def next_due(self):
        return self.queue[0][0] if self.queue else None

    # ------------------------------------------------------------------ I/O
    def _do_close(self):
        if self.conn is not None:
            try:
                self.conn.shutdown(socket.SHUT_RDWR)
            except OSError:
                pass
            self.conn.close()
            self.conn = None
        self.closed_by_us = True
        self.queue = []

    def _write(self, data):
        if self.conn is None:
            return
        try:
            self.conn.setblocking(True)
            self.conn.sendall(data)
            self.conn.setblocking(False)
            self.sent_log.append((time.monotonic(), data))
        except OSError:
            self.closed_by_client = True
            self.conn.close()
            self.conn = None

    def _run_due(self):
        now = time.monotonic()
        while self.queue and self.queue[0][0] <= now:
            _, _, kind, data = heapq.heappop(self.queue)
            if kind == "send":
                self._write(data)
            else:
                self._do_close()
                return

    def _handle_auth(self):
        while not self.begun:
            i = self.inbuf.find(b"\r\n")
            if i < 0:
                return
            line, self.inbuf = self.inbuf[:i], self.inbuf[i + 2:]
            if line.startswith(b"\0"):
                line = line[1:]
            self.auth_lines.append(line)
            w = line.split()
            if not w:
                self._write(b"ERROR\r\n")
            elif w[0] == b"AUTH":
                if len(w) >= 2 and w[1] == b"EXTERNAL":
                    if len(w) >= 3:
                        self.authed = True
                        self._write(b"OK " + GUID.encode() + b"\r\n")
                    else:
                        self._write(b"DATA\r\n")
                elif len(w) == 1:
                    self._write(b"REJECTED EXTERNAL\r\n")
                else:
                    self._write(b"REJECTED EXTERNAL\r\n")
            elif w[0] == b"DATA":
                self.authed = True
                self._write(b"OK " + GUID.encode() + b"\r\n")
            elif w[0] == b"NEGOTIATE_UNIX_FD":
                self._write(b"ERROR\r\n")
            elif w[0] == b"BEGIN":
                if self.authed:
                    self.begun = True
                else:
                    self._do_close()
                    return
            elif w[0] == b"CANCEL" or w[0] == b"ERROR":
                self._write(b"REJECTED EXTERNAL\r\n")
            else:
                self._write(b"ERROR\r\n")

    def _handle_messages(self):
        while self.conn is not None or self.inbuf:
            if len(self.inbuf) < 16:
                return
            try:
                n = wire.frame_length(self.inbuf)
            except wire.Invalid as e:
                self.protocol_errors.append("unframeable bytes from client: %s" % e.reason)
                self.inbuf = b""
                return
            if len(self.inbuf) < n:
                return
            frame, self.inbuf = self.inbuf[:n], self.inbuf[n:]
            try:
                m = wire.decode(frame)
            except wire.Invalid as e:
                self.protocol_errors.append("client sent an invalid message: %s (%s)" % (e.reason, frame[:64].hex()))
                continue
            self.received.append(m)
            if self.on_message is not None:
                self.on_message(self, m)
            if self.conn is None:
                return

    def step(self, timeout, extra_rfds=()):
        """one select round; returns the subset of extra_rfds that became readable"""
        now = time.monotonic()
        due = self.next_due()
        if due is not None:
            timeout = max(0.0, min(timeout, due - now))
        rl = self.fileno_list() + list(extra_rfds)
        try:
            r, _, _ = select.select(rl, [], [], timeout)
        except (OSError, ValueError):
            r = []
        if self.lsock in r and self.conn is None:
            try:
                self.conn, _ = self.lsock.accept()
                self.conn.setblocking(False)
            except OSError:
                self.conn = None
        if self.conn is not None and self.conn in r:
            try:
                data = self.conn.recv(65536)
            except BlockingIOError:
                data = None
            except OSError:
                data = b""
            if data == b"":
                self.closed_by_client = True
                self.conn.close()
                self.conn = None
            elif data:
                self.inbuf += data
                if not self.begun:
                    self._handle_auth()
                if self.begun:
                    self._handle_messages()
        self._run_due()
        return [x for x in extra_rfds if x in r]


# ---------------------------------------------------------------------- message helpers

def method_return(peer, reply_serial, sig=b"", body=(), order="l"):
    return wire.encode_message(wire.T_RETURN, [(wire.F_REPLY_SERIAL, Variant(b"u", reply_serial))],
                               sig, list(body), serial=peer.next_serial(), flags=1, order=order)


def error_reply(peer, reply_serial, name, sig=b"", body=(), order="l"):
    return wire.encode_message(wire.T_ERROR, [(wire.F_ERROR_NAME, Variant(b"s", name)),
                                              (wire.F_REPLY_SERIAL, Variant(b"u", reply_serial))],
                               sig, list(body), serial=peer.next_serial(), flags=1, order=order)


def signal(peer, path=b"/noise", iface=b"com.example.Noise", member=b"N", sig=b"", body=(), order="l"):
    return wire.encode_message(wire.T_SIGNAL, [(wire.F_PATH, Variant(b"o", path)), (wire.F_INTERFACE, Variant(b"s", iface)),
                                               (wire.F_MEMBER, Variant(b"s", member))],
                               sig, list(body), serial=peer.next_serial(), flags=1, order=order)


def spoof(peer, mtype, reply_serial, sig=b"", body=(), order="l"):
    """A message that is NOT a reply (SIGNAL or METHOD_CALL) but carries a REPLY_SERIAL header field."""
    fields = [(wire.F_PATH, Variant(b"o", b"/spoof")), (wire.F_INTERFACE, Variant(b"s", b"com.example.Spoof")),
              (wire.F_MEMBER, Variant(b"s", b"S")), (wire.F_REPLY_SERIAL, Variant(b"u", reply_serial))]
    return wire.encode_message(mtype, fields, sig, list(body), serial=peer.next_serial(), flags=1, order=order)
