"""Verdict / known-finding / evidence / replay plumbing shared by all checks."""
import collections
import json
import os
import sys
import time

VERIF = os.path.dirname(os.path.dirname(os.path.abspath(__file__)))
KNOWN_PATH = os.path.join(VERIF, "known_findings.json")


def seed_from_env():
    try:
        return int(os.environ.get("VERIF_SEED", "1"))
    except ValueError:
        return 1


def load_known():
    try:
        with open(KNOWN_PATH) as fh:
            return json.load(fh)
    except FileNotFoundError:
        return []


class Part(object):
    """What one worker observed; mergeable."""

    def __init__(self):
        self.evaluations = 0
        self.signatures = set()
        self.counters = collections.Counter()
        self.violations = []      # dicts: key, what, witness
        self.samples = []
        self.inconclusive = []

    def sig(self, *s):
        self.signatures.add(s if len(s) != 1 else s[0])

    def count(self, k, n=1):
        self.counters[k] += n

    def violation(self, key, what, witness=None):
        self.violations.append({"key": key, "what": what, "witness": witness})

    def sample(self, s, cap=6):
        if len(self.samples) < cap:
            self.samples.append(s)

    def merge(self, o):
        self.evaluations += o.evaluations
        self.signatures |= o.signatures
        self.counters.update(o.counters)
        self.violations += o.violations
        for s in o.samples:
            if len(self.samples) < 12:
                self.samples.append(s)
        self.inconclusive += o.inconclusive


class Run(Part):
    def __init__(self, prop, tier, level="exploration", seed=None):
        Part.__init__(self)
        self.prop = prop
        self.tier = tier
        self.level = level
        self.seed = seed_from_env() if seed is None else seed
        self.t0 = time.time()
        self.rule = ""
        self.extra = {}
        self.assumptions = []
        self.builds = []
        self.min_events = {}     # counter name -> minimum required, else inconclusive

    def require(self, counter, minimum):
        self.min_events[counter] = minimum

    def finish(self):
        known = [k for k in load_known() if k.get("property") == self.prop]
        known_keys = {k["key"]: k for k in known if k.get("status") == "known"}
        outdir = os.path.join(VERIF, "out", "replay")
        os.makedirs(outdir, exist_ok=True)
        bykey = collections.OrderedDict()
        for v in self.violations:
            if v["key"].startswith("BUS:"):
                v["key"] = self.prop + v["key"][3:]
            bykey.setdefault(v["key"], []).append(v)
        known_seen = []
        unknown = []
        for key, vs in bykey.items():
            if key in known_keys:
                known_seen.append(key)
                print("KNOWN-FINDING: property=%s %s [%s] (%d occurrence(s))"
                      % (self.prop, known_keys[key]["what"], key, len(vs)))
            else:
                unknown.append(key)
        n_viol = 0
        for i, key in enumerate(unknown):
            vs = bykey[key]
            path = os.path.join(outdir, "%s-%d-%d.json" % (self.prop, self.seed, i))
            with open(path, "w") as fh:
                json.dump({"property": self.prop, "seed": self.seed, "tier": self.tier, "key": key,
                           "what": vs[0]["what"], "occurrences": len(vs),
                           "witness": vs[0]["witness"],
                           "more_witnesses": [v["witness"] for v in vs[1:4]]}, fh, indent=1, default=_js)
            print("VIOLATION property=%s replay=%s key=%s what=%s" % (self.prop, path, key, vs[0]["what"]))
            n_viol += 1
        inconclusive = list(self.inconclusive)
        for c, m in self.min_events.items():
            if self.counters.get(c, 0) < m:
                inconclusive.append("counter %s = %d < required %d" % (c, self.counters.get(c, 0), m))
        try:
            # margins of the coverage requirements (tools/margins.py summarises them over many seeds)
            if os.environ.get("VERIF_REPO", "/repo") != "/repo":
                raise OSError("scratch tree: not logged")
            with open(os.path.join(VERIF, "out", "margins.log"), "a") as fh:
                for c, m in self.min_events.items():
                    if m > 0:
                        fh.write("%s %s %s %s %d %d\n" % (self.prop, self.tier, self.seed, c.replace(" ", "_"), self.counters.get(c, 0), m))
        except OSError:
            pass
        distinct = len(self.signatures)
        cov = {
            "evaluations": int(self.evaluations),
            "distinct_nontrivial": int(distinct),
            "rule": self.rule,
            "samples": self.samples if self.samples else ["<none>"],
            "events_observed": {k: int(v) for k, v in sorted(self.counters.items())},
            "known_findings_seen": known_seen,
            "violation_keys": unknown,
            "inconclusive": inconclusive,
            "builds": self.builds,
        }
        cov.update(self.extra)
        ev = {"property_id": self.prop, "tier": self.tier, "seed": int(self.seed), "level": self.level,
              "coverage": cov, "assumptions": self.assumptions,
              "wall_s": round(time.time() - self.t0, 2), "violations": n_viol}
        # evidence of runs against a scratch copy of the repository (seeded changes, VERIF_REPO) must never
        # replace the evidence of the registered checks, which describes /repo itself
        evdir = os.path.join(VERIF, "evidence")
        repo = os.path.abspath(os.environ.get("VERIF_REPO", "/repo"))
        if repo != "/repo":
            evdir = os.path.join(VERIF, "out", "scratch-evidence")
        elif os.environ.get("VERIF_IS_REPLAY"):
            evdir = os.path.join(VERIF, "out", "replay-evidence")
        os.makedirs(evdir, exist_ok=True)
        ev = _shrink(ev)
        with open(os.path.join(evdir, self.prop + ".json"), "w") as fh:
            json.dump(ev, fh, indent=1, default=_js)
        print("%s %s seed=%d: evaluations=%d distinct=%d violations=%d known=%d wall=%.1fs"
              % (self.prop, self.tier, self.seed, self.evaluations, distinct, n_viol, len(known_seen),
                 time.time() - self.t0))
        top = ", ".join("%s=%d" % kv for kv in sorted(self.counters.items())[:40])
        print("  observed: " + top)
        if n_viol:
            for s in inconclusive[:5]:
                print("INCONCLUSIVE: " + s[:2000])
            return 1
        if inconclusive or self.evaluations == 0 or distinct < 2:
            for s in inconclusive:
                print("INCONCLUSIVE: " + s[:2000])
            if self.evaluations == 0 or distinct < 2:
                print("INCONCLUSIVE: observed nothing (evaluations=%d distinct=%d)" % (self.evaluations, distinct))
            return 2
        return 0


def _shrink(o, depth=0):
    """keep evidence files small: long strings are cut, long lists are cut (with a note)"""
    if isinstance(o, str):
        return o if len(o) <= 1500 else o[:1500] + "...(%d chars)" % len(o)
    if isinstance(o, (bytes, bytearray)):
        return _shrink(bytes(o).hex())
    if isinstance(o, dict):
        return {k: _shrink(v, depth + 1) for k, v in o.items()}
    if isinstance(o, (list, tuple)):
        lim = 400 if depth <= 2 else 60
        out = [_shrink(v, depth + 1) for v in list(o)[:lim]]
        if len(o) > lim:
            out.append("...(%d more)" % (len(o) - lim))
        return out
    return o


def _js(o):
    if isinstance(o, (bytes, bytearray)):
        return {"hex": bytes(o).hex()}
    if isinstance(o, (set, frozenset)):
        return sorted(o, key=repr)
    if hasattr(o, "sig") and hasattr(o, "value"):
        return {"variant": o.sig.decode("latin1"), "value": o.value}
    return repr(o)


def run_sharded(fn, shards, nproc=None):
    """Run fn(shard) for every shard in forked worker processes; yields results as they finish.
    A worker that raises returns a Part marked inconclusive; a worker that is KILLED (e.g. by the OOM killer)
    breaks the pool - the remaining shards are then reported as inconclusive instead of hanging forever."""
    import concurrent.futures as cf
    import multiprocessing as mp
    nproc = nproc or min(16, os.cpu_count() or 4)
    ctx = mp.get_context("fork")
    with cf.ProcessPoolExecutor(max_workers=min(nproc, max(1, len(shards))), mp_context=ctx) as ex:
        futs = {ex.submit(_guard(fn), sh): sh for sh in shards}
        for fu in cf.as_completed(futs):
            try:
                yield fu.result()
            except BaseException as e:      # BrokenProcessPool and friends
                p = Part()
                p.inconclusive.append("worker process for shard %r was lost (%s: %s)" % (futs[fu], type(e).__name__, e))
                yield p


class _guard(object):
    def __init__(self, fn):
        self.fn = fn

    def __call__(self, shard):
        try:
            return self.fn(shard)
        except BaseException as e:   # report as harness failure, never as pass
            import re as _re
            m = _re.search(r"bus sent an undecodable message: Result\((\w+), '([^']*)'", str(e))
            if m:
                # the bus relayed / produced bytes that are not a valid message: a violation in whatever check
                # observed it (Run.finish() puts the property id in front)
                p = Part()
                p.evaluations = 1
                p.violation("BUS:bus-sent-invalid-message:%s" % m.group(2).split(":")[0],
                            "a test client received a frame from the bus that is not a valid message (%s)" % m.group(2),
                            {"shard": repr(shard)[:300]})
                return p
            import traceback
            p = Part()
            p.inconclusive.append("worker crashed on shard %r: %s\n%s" % (shard, e, traceback.format_exc()[-1500:]))
            return p
