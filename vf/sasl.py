"""Reference SERVER for the D-Bus authentication protocol, written from doc/dbus-specification.xml
(chapter "Authentication Protocol") only - never from dbus-auth.c.

The model is non-deterministic wherever the specification permits more than one server behaviour or
is silent: `Model.alts(state, client_line)` returns every permitted (expected reply, next state)
pair; `Tracker` keeps the set of model states that are still consistent with what the server under
test was observed to answer (power-set simulation), so a permitted choice made by the implementation
never produces a disagreement and a long script stays checkable after such a choice.

Reply expectations (first element of an alternative):
    ("OK",)            OK <server guid>                      -> WaitingForBegin
    ("REJECTED",)      REJECTED <exactly the allowed mechs>  -> WaitingForAuth
    ("DATA_EMPTY",)    DATA with an empty challenge          -> WaitingForData
    ("DATA_COOKIE",)   DATA hex("<context> <cookie id> <challenge>")  -> WaitingForData
    ("ERROR",)         ERROR [text]                          state unchanged
    ("AGREE",)         AGREE_UNIX_FD
    ("AUTHENTICATED",) no reply, authentication phase over, peer authenticated
    ("DISCONNECT",)    no reply, server drops the connection

Where the model is deliberately permissive (each is counted under its branch label):
  * AUTH without arguments / with a mechanism that is not allowed: REJECTED or ERROR ("must send
    either a REJECTED command ... or an error").
  * malformed hex (AUTH initial response or DATA): ERROR (state unchanged, "did not understand the
    arguments") or REJECTED ("there was an error in RESP").
  * CANCEL in WaitingForAuth: ERROR (state table: "anything else") or REJECTED (CANCEL section).
  * AUTH <mech> without initial response: the mechanism may issue an empty challenge (DATA) or treat
    the missing response as an empty one.
  * EXTERNAL with a login NAME that maps to the socket uid: OK or REJECTED ("not required to be
    accepted").  ANONYMOUS trace data: OK or REJECTED (not described by the D-Bus specification).
  * NEGOTIATE_UNIX_FD when fd passing is possible: AGREE_UNIX_FD or ERROR ("server decides not to").
  * blanks: the command name ends at the first space (strict reading); an implementation that also
    splits at tabs / skips runs of blanks is accepted as an alternative reading of the same line.
  * commands that take no argument but were given one (BEGIN x, CANCEL x, NEGOTIATE_UNIX_FD x):
    handled as the command or answered with ERROR.
  * number of rejections before disconnect: any bound from 1 to MAX_REJECTIONS.
"""
import collections
import hashlib

MECH_EXTERNAL = b"EXTERNAL"
MECH_COOKIE = b"DBUS_COOKIE_SHA1"
MECH_ANON = b"ANONYMOUS"
SPEC_MECHS = (MECH_EXTERNAL, MECH_COOKIE, MECH_ANON)
DEFAULT_CONTEXT = b"org_freedesktop_general"
MAX_REJECTIONS = 16          # "bounded": some bound <= 16 must be enforced
MAX_HANDSHAKE_BUFFER = 16 * 1024

# phase: auth | data | begin | authenticated | disconnected
# sub: mechanism stage; chal: (context, id, server challenge) for the cookie mechanism
# ident: None | ("uid", n) | ("anon",) ; agreed: None | "cur" (AGREE since the last OK) | "old"
St = collections.namedtuple("St", "phase mech sub chal ident agreed nrej")

INITIAL = St("auth", None, None, None, None, None, 0)


def hexdecode(b):
    """strict hex of either case; returns bytes or None"""
    if len(b) % 2:
        return None
    try:
        if not all(c in b"0123456789abcdefABCDEF" for c in b):
            return None
        return bytes.fromhex(b.decode("ascii"))
    except ValueError:
        return None


def split_lines(stream):
    """[(line without CRLF, end offset just after its CRLF)], rest offset"""
    out = []
    pos = 0
    while True:
        i = stream.find(b"\r\n", pos)
        if i < 0:
            return out, pos
        out.append((stream[pos:i], i + 2))
        pos = i + 2


def parse_reply(line):
    """server line (without CRLF) -> (class, argument)"""
    if line.startswith(b"OK ") or line == b"OK":
        return "OK", line[3:]
    if line.startswith(b"REJECTED ") or line == b"REJECTED":
        return "REJECTED", line[9:]
    if line.startswith(b"DATA ") or line == b"DATA":
        return "DATA", line[5:]
    if line.startswith(b"ERROR ") or line == b"ERROR":
        return "ERROR", line[6:]
    if line == b"AGREE_UNIX_FD":
        return "AGREE", b""
    return "UNKNOWN", line


def cookie_response(server_challenge, client_challenge, cookie_hex):
    """what a client must send back (before hex encoding of the whole)"""
    h = hashlib.sha1(server_challenge + b":" + client_challenge + b":" + cookie_hex).hexdigest().encode()
    return client_challenge + b" " + h


def is_ascii_line(line):
    return all(0 < c < 128 for c in line)


class Model(object):
    def __init__(self, mechs=None, cred_uid=None, allow_anonymous=None, cookies=None, context=DEFAULT_CONTEXT,
                 owner_uid=0, users=None, unix_fd_possible=False, guid=None):
        """mechs: list of allowed mechanism names (bytes) or None = every mechanism the specification describes
        cred_uid: uid from the socket credentials or None
        allow_anonymous: may an anonymous peer count as authenticated (default: ANONYMOUS is allowed)
        cookies: {context: {id(int): cookie hex text (bytes)}} - the server owner's keyring
        owner_uid: the user owning the server process; users: {login name: uid}
        guid: expected argument of OK (None = any 32-digit hex)"""
        self.mechs = list(SPEC_MECHS) if mechs is None else list(mechs)
        self.cred_uid = cred_uid
        self.allow_anonymous = (MECH_ANON in self.mechs) if allow_anonymous is None else allow_anonymous
        self.cookies = cookies or {}
        self.context = context
        self.owner_uid = owner_uid
        self.users = users or {}
        self.unix_fd_possible = unix_fd_possible
        self.guid = guid

    # ------------------------------------------------------------------ helpers
    def _rej(self, st, label):
        return (("REJECTED",), St("auth", None, None, None, None, "old" if st.agreed else None, st.nrej + 1), label)

    def _err(self, st, label):
        return (("ERROR",), st, label)

    def _ok(self, st, ident, label):
        return (("OK",), St("begin", st.mech, None, None, ident, "old" if st.agreed else None, st.nrej), label)

    def hexdecode(self, b):
        return hexdecode(b)

    def resolve_identity(self, s):
        """authorization identity string -> (uid or None, 'numeric'|'name')"""
        if s and all(0x30 <= c <= 0x39 for c in s):
            t = bytes(s).lstrip(b"0")
            return (int(t or b"0") if len(t) <= 30 else -1), "numeric"
        return self.users.get(bytes(s)), "name"

    # ------------------------------------------------------------------ mechanisms
    def _mech(self, st, mech, resp, first):
        """resp: bytes (decoded) or None (AUTH without initial response). st.mech == mech already."""
        out = []
        if mech == MECH_EXTERNAL:
            if resp is None:
                out.append((("DATA_EMPTY",), st._replace(phase="data", sub="asked"), "external:empty-challenge"))
                resp = b""
            if self.cred_uid is None:
                out.append(self._rej(st, "external:no-credentials"))
            elif resp == b"":
                out.append(self._ok(st, ("uid", self.cred_uid), "external:empty-identity"))
            else:
                uid, kind = self.resolve_identity(resp)
                if kind == "numeric":
                    if uid == self.cred_uid:
                        out.append(self._ok(st, ("uid", uid), "external:uid-matches"))
                    else:
                        out.append(self._rej(st, "external:uid-differs"))
                elif uid is not None and uid == self.cred_uid:
                    out.append(self._ok(st, ("uid", uid), "external:name-matches"))
                    out.append(self._rej(st, "external:name-not-supported"))
                else:
                    out.append(self._rej(st, "external:name-unknown-or-differs"))
            return out
        if mech == MECH_ANON:
            if resp is None:
                out.append((("DATA_EMPTY",), st._replace(phase="data", sub="asked"), "anonymous:empty-challenge"))
                resp = b""
            out.append(self._ok(st, ("anon",), "anonymous:ok"))
            if resp != b"":
                out.append(self._rej(st, "anonymous:trace-rejected"))
            elif not self.allow_anonymous:
                # the refusal may come here or at BEGIN (the specification does not say where)
                out.append(self._rej(st, "anonymous:not-allowed"))
            return out
        if mech == MECH_COOKIE:
            if st.sub == "chal":
                ctx, cid, chal = st.chal
                cookie = self.cookies.get(ctx, {}).get(cid)
                sp = resp.find(b" ") if resp is not None else -1
                if cookie is None or sp <= 0 or sp == len(resp) - 1:
                    out.append(self._rej(st, "cookie:malformed-response"))
                else:
                    cc, got = resp[:sp], resp[sp + 1:]
                    want = hashlib.sha1(chal + b":" + cc + b":" + cookie).hexdigest().encode()
                    if got == want:
                        out.append(self._ok(st, ("uid", self.owner_uid), "cookie:hash-matches"))
                    else:
                        out.append(self._rej(st, "cookie:hash-differs"))
                return out
            if resp is None or resp == b"":
                if resp is None:
                    out.append((("DATA_EMPTY",), st._replace(phase="data", sub="asked"), "cookie:empty-challenge"))
                out.append(self._rej(st, "cookie:no-username"))
                return out
            uid, kind = self.resolve_identity(resp)
            if uid is not None and uid == self.owner_uid and self.cookies.get(self.context):
                out.append((("DATA_COOKIE",), st._replace(phase="data", sub="chal"), "cookie:challenge"))
            else:
                out.append(self._rej(st, "cookie:not-the-server-owner" if uid is not None else "cookie:unknown-user"))
            return out
        raise AssertionError(mech)

    # ------------------------------------------------------------------ line interpretation
    @staticmethod
    def readings(line):
        """[(command, [argument words], label)]: the strict reading first, then the blank-tolerant one"""
        sp = line.find(b" ")
        if sp < 0:
            strict = (line, [])
        else:
            rest = line[sp + 1:]
            strict = (line[:sp], rest.split(b" ") if rest != b"" else [])
        toks = line.replace(b"\t", b" ").split(b" ")
        if line[:1] in (b" ", b"\t"):
            lenient = (b"", [t for t in toks if t])
        else:
            lenient = (toks[0], [t for t in toks[1:] if t])
        out = [(strict[0], strict[1], "strict")]
        if lenient != strict:
            out.append((lenient[0], lenient[1], "blank-tolerant"))
        return out

    def alts(self, st, line):
        """every permitted (expectation, next state, branch label) for this client line in state st"""
        if st.phase in ("authenticated", "disconnected"):
            return []
        if not is_ascii_line(line):
            return [self._err(st, "non-ascii")]
        out = []
        for cmd, args, reading in self.readings(line):
            for a in self._alts_cmd(st, cmd, args):
                lab = a[2] if reading == "strict" else a[2] + "(" + reading + ")"
                if not any(a[0] == o[0] and a[1] == o[1] for o in out):
                    out.append((a[0], a[1], lab))
        if st.nrej >= 1:
            # "rejected too many times -> disconnect": the server may drop the peer instead of sending one more
            # REJECTED
            if any(a[0] == ("REJECTED",) for a in out) and not any(a[0] == ("DISCONNECT",) for a in out):
                out.append((("DISCONNECT",), st._replace(phase="disconnected"), "too-many-rejections:silent"))
        return out

    def _alts_cmd(self, st, cmd, args):
        ph = st.phase
        extra = []
        if cmd in (b"BEGIN", b"CANCEL", b"NEGOTIATE_UNIX_FD") and args:
            # arguments on a command that takes none: "did not understand the arguments" is permitted too
            extra = [self._err(st, "unexpected-arguments")]
        if cmd == b"ERROR":
            return [self._rej(st, ph + ":client-error")]
        if cmd == b"BEGIN":
            if ph == "begin":
                if st.ident == ("anon",) and not self.allow_anonymous:
                    return [(("DISCONNECT",), st._replace(phase="disconnected"), "begin:anonymous-not-allowed")] + extra
                return [(("AUTHENTICATED",), st._replace(phase="authenticated"), "begin:authenticated")] + extra
            return [(("DISCONNECT",), st._replace(phase="disconnected"), ph + ":begin-before-ok")] + extra
        if cmd == b"CANCEL":
            if ph == "auth":
                return [self._err(st, "auth:cancel-error"), self._rej(st, "auth:cancel-rejected")]
            return [self._rej(st, ph + ":cancel")] + extra
        if ph == "auth" and cmd == b"AUTH":
            if not args:
                return [self._rej(st, "auth:list-mechanisms"), self._err(st, "auth:list-mechanisms-error")]
            mech = args[0]
            if mech not in self.mechs or mech not in SPEC_MECHS:
                return [self._rej(st, "auth:mechanism-not-allowed"), self._err(st, "auth:mechanism-not-allowed-error")]
            if len(args) > 2:
                return [self._err(st, "auth:too-many-arguments"), self._rej(st, "auth:too-many-arguments-rejected")]
            st2 = st._replace(mech=mech)
            if len(args) == 1:
                return self._mech(st2, mech, None, True)
            resp = self.hexdecode(args[1])
            if resp is None:
                return [self._err(st, "auth:bad-hex"), self._rej(st, "auth:bad-hex-rejected")]
            return self._mech(st2, mech, resp, True)
        if ph == "data" and cmd == b"DATA":
            if len(args) > 1:
                return [self._err(st, "data:too-many-arguments"), self._rej(st, "data:too-many-arguments-rejected")]
            resp = self.hexdecode(args[0]) if args else b""
            if resp is None:
                return [self._err(st, "data:bad-hex"), self._rej(st, "data:bad-hex-rejected")]
            return self._mech(st, st.mech, resp, False)
        if ph == "begin" and cmd == b"NEGOTIATE_UNIX_FD":
            out = [self._err(st, "begin:fd-refused")]
            if self.unix_fd_possible:
                out.insert(0, (("AGREE",), st._replace(agreed="cur"), "begin:fd-agreed"))
            return out + extra
        return [self._err(st, ph + ":anything-else")]

    # ------------------------------------------------------------------ matching observations
    def match(self, exp, nst, obs, seen_rejected):
        """obs: ("line", bytes) | ("authenticated",) | ("disconnect",).  Returns (next state, problem) where
        problem is None on a clean match, or a string when the CLASS matches but the content is wrong;
        returns None when the class does not match."""
        kind = exp[0]
        if obs[0] == "authenticated":
            return (nst, None) if kind == "AUTHENTICATED" else None
        if obs[0] == "disconnect":
            return (nst, None) if kind == "DISCONNECT" else None
        cls, arg = parse_reply(obs[1])
        if kind == "OK" and cls == "OK":
            if self.guid is not None and arg != self.guid:
                return nst, "OK carries guid %r, server guid is %r" % (arg, self.guid)
            if self.guid is None and (len(arg) != 32 or hexdecode(arg) is None):
                return nst, "OK argument %r is not a 32-digit hex guid" % arg
            return nst, None
        if kind == "REJECTED" and cls == "REJECTED":
            listed = arg.split(b" ") if arg else []
            if sorted(listed) != sorted(self.mechs):
                return nst, "REJECTED lists %r, allowed mechanisms are %r" % (listed, self.mechs)
            if seen_rejected and obs[1] not in seen_rejected:
                return nst, "REJECTED list changed within one conversation"
            return nst, None
        if kind == "ERROR" and cls == "ERROR":
            return nst, None
        if kind == "AGREE" and cls == "AGREE":
            return nst, None
        if kind == "DATA_EMPTY" and cls == "DATA" and arg == b"":
            return nst, None
        if kind == "DATA_COOKIE" and cls == "DATA" and arg != b"":
            raw = hexdecode(arg)
            if raw is None:
                return nst, "DATA argument is not hex"
            if arg != arg.lower():
                return nst, "DBUS_COOKIE_SHA1 challenge hex uses upper-case digits"
            parts = raw.split(b" ")
            if len(parts) != 3 or not parts[2] or not parts[1].isdigit():
                return nst, "cookie challenge %r is not '<context> <id> <challenge>'" % raw
            ctx, cid, chal = parts[0], int(parts[1]), parts[2]
            nst = nst._replace(chal=(ctx, cid, chal))
            if ctx != self.context:
                return nst, "cookie challenge names context %r, server context is %r" % (ctx, self.context)
            if cid not in self.cookies.get(ctx, {}):
                return nst, "cookie challenge names id %d which is not a valid cookie of the keyring" % cid
            return nst, None
        return None


class Tracker(object):
    """Steps the model alongside an observed conversation."""

    def __init__(self, model, deviations=()):
        """deviations: [(key, model)] - named deviations (DESIGN.md section 2): models of a known way in which an
        implementation departs from the specification.  They are consulted only when the specification model
        has no permitted reaction matching the observation; a hit is recorded in deviations_hit (the caller
        reports it under the deviation's key) and stepping continues from the deviant model's state."""
        self.model = model
        self.deviations = list(deviations)
        self.deviations_hit = []
        self.configs = {INITIAL}
        self.seen_rejected = set()
        self.n_rejected = 0
        self.challenges = []
        self.labels = []
        self.problems = []      # (class, text) content problems on class-matching replies
        self.last_reply = None

    def expectations(self, line):
        """set of expectation kinds over all live model states"""
        out = set()
        for st in self.configs:
            for exp, nst, lab in self.model.alts(st, line):
                out.add(exp[0])
        return out

    def expectation_labels(self, line):
        """[(expectation kind, branch label)] over all live model states"""
        out = []
        for st in self.configs:
            for exp, nst, lab in self.model.alts(st, line):
                out.append((exp[0], lab))
        return out

    def phases(self):
        return sorted(set(st.phase for st in self.configs))

    def step(self, line, obs):
        """Advance on (client line, observed reaction).  Returns None when the reaction is permitted, else a
        dict describing the disagreement (the tracker is then left unchanged)."""
        new, labs, probs, allexp = self._try(self.model, line, obs)
        if not new:
            for key, dm in self.deviations:
                new2, labs2, _, _ = self._try(dm, line, obs)
                if new2:
                    new, labs = new2, [l + "[deviation]" for l in labs2]
                    self.deviations_hit.append((key, line, obs, sorted(set(allexp))))
                    break
        if not new:
            return {"expected": sorted(set(allexp)), "content_problems": probs, "phases": self.phases()}
        self.configs = set(new)
        self.labels += sorted(set(labs))
        if obs[0] == "line":
            cls, arg = parse_reply(obs[1])
            self.last_reply = cls
            if cls == "REJECTED":
                self.seen_rejected.add(obs[1])
                self.n_rejected += 1
            for st in self.configs:
                if st.chal is not None and st.phase == "data" and cls == "DATA" and arg:
                    self.challenges.append(st.chal[2])
                    break
        else:
            self.last_reply = obs[0]
        return None

    def _try(self, model, line, obs):
        new, labs, probs, allexp = {}, [], [], []
        for st in self.configs:
            for exp, nst, lab in model.alts(st, line):
                allexp.append((exp[0], lab))
                m = model.match(exp, nst, obs, self.seen_rejected)
                if m is None:
                    continue
                nst2, prob = m
                if prob is not None:
                    probs.append((exp[0], prob))
                    continue
                new[nst2] = True
                labs.append(lab)
        return new, labs, probs, allexp

    # what the conversation established (valid after an "authenticated" observation was accepted)
    def identities(self):
        return set(st.ident for st in self.configs if st.phase == "authenticated")

    def agreed(self):
        return set(st.agreed for st in self.configs)
