#!/usr/bin/python3
"""Scripted activatable service for C19 (started by the bus under test through a .service file).

    service_stub.py <behaviour> <well-known name> <log file>

behaviour:
    quick               connect, Hello, RequestName(name), serve
    delay:<ms>          connect, Hello, sleep, RequestName(name), serve
    delay-connect:<ms>  sleep, then as quick
    never               connect, Hello, never ask for the name; idle until killed / bus gone
    other               connect, Hello, RequestName(name + ".Other"), serve
    exit-before:<n>     exit(n) before connecting           (n < 0: die from signal -n)
    exit-after:<n>      connect, Hello, then exit(n) without asking for the name
    gate-quick / gate-exit-before:<n> / gate-exit-after:<n>
                        as above, but the decisive action (RequestName resp. exit) happens only once the file
                        "<log file>.go" exists - the check decides when the start succeeds or fails

The bus is found through DBUS_STARTER_ADDRESS.  Every event is one appended line in the log file:
    started <pid>
    connected <unique name>
    will-request <serial>            (gated 'quick' only: the serial the RequestName after the gate will carry)
    acquired <name> <RequestName reply code | error:<name>>     (repeated after a NoMemory error: the request is retried)
    msg <arrival index> <type> <sender> <serial> <member> <first string argument>
Method calls are answered with a METHOD_RETURN carrying the same string (after the line has been written, so a
reply to a later call proves that all earlier arrivals are in the log).
"""
import os
import signal
import sys
import time

sys.path.insert(0, os.path.dirname(os.path.dirname(os.path.abspath(__file__))))


def main():
    behaviour, name, logpath = sys.argv[1], sys.argv[2].encode(), sys.argv[3]
    logfd = os.open(logpath, os.O_WRONLY | os.O_APPEND | os.O_CREAT, 0o644)

    def log(text):
        os.write(logfd, (text + "\n").encode("utf-8", "replace"))

    log("started %d" % os.getpid())
    try:
        os.dup2(logfd, 2)      # tracebacks belong to this log, not to the bus's stderr
    except OSError:
        pass
    kind, _, arg = behaviour.partition(":")
    gated = kind.startswith("gate-")
    if gated:
        kind = kind[5:]

    def gate():
        if gated:
            while not os.path.exists(logpath + ".go"):
                time.sleep(0.004)
            log("gate-open")

    def die(n):
        n = int(n)
        if n < 0:
            os.kill(os.getpid(), -n)
            time.sleep(5)
        os._exit(n)

    if kind == "exit-before":
        gate()
        die(arg)
    if kind == "delay-connect":
        time.sleep(int(arg) / 1000.0)

    from vf import client
    addr = os.environ.get("DBUS_STARTER_ADDRESS", "")
    path = None
    for part in addr.split(";")[0].split(":", 1)[-1].split(","):
        if part.startswith("path="):
            path = part[5:]
    if not path:
        log("error no-address %r" % addr)
        os._exit(3)
    c = client.connect(path)
    log("connected %s" % c.unique.decode())
    if kind == "exit-after":
        gate()
        die(arg)
    if kind == "delay":
        time.sleep(int(arg) / 1000.0)
    want = None
    if kind == "quick":
        if gated:
            log("will-request %d" % (c.serial + 1))     # serial of the RequestName that follows the gate (fault-injection runs arm on it)
        gate()
    if kind in ("quick", "delay", "delay-connect"):
        want = name
    elif kind == "other":
        want = name + b".Other"
    if want is not None:
        for attempt in range(4):
            r = c.bus_call(b"RequestName", b"su", [want, 0])
            log("acquired %s %s" % (want.decode(), r.msg.body[0] if r.msg.type == 2 else "error:%s" % r.msg.known().get(4).decode()))
            # out of memory in the bus is transient by definition: ask again
            if not (r.msg.type == 3 and r.msg.known().get(4) == b"org.freedesktop.DBus.Error.NoMemory"):
                break
    idx = 0
    while True:
        try:
            rec = c.recv(timeout=3600)
        except client.Timeout:
            continue
        except client.Closed:
            log("bus-gone")
            os._exit(0)
        m = rec.msg
        k = m.known()
        if k.get(7) == b"org.freedesktop.DBus":
            continue                      # NameAcquired and friends
        tok = m.body[0] if m.body and isinstance(m.body[0], (bytes, bytearray)) else b"-"
        log("msg %d %d %s %d %s %s" % (idx, m.type, (k.get(7) or b"?").decode(), m.serial,
                                       (k.get(3) or b"-").decode(), bytes(tok).decode("latin1")))
        idx += 1
        if m.type == 1 and not (m.flags & 1):
            c.reply(rec, b"s", [bytes(tok)])


if __name__ == "__main__":
    try:
        main()
    except SystemExit:
        raise
    except BaseException as e:     # never leave the bus guessing: a crash is an exit status like any other
        try:
            sys.stderr.write("stub crashed: %r\n" % (e,))
        except Exception:
            pass
        os._exit(70)
