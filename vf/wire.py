"""Independent D-Bus wire codec and validator, written from doc/dbus-specification.xml.

This module is the oracle for C01/C02/C11/C12 and the codec of the raw bus client.
It never consults libdbus.  Verdicts:

  VALID        the bytes [0:length] are exactly one well-formed message
  INCOMPLETE   a prefix of something that might still become valid; .need = total bytes
               required if already known (else 16)
  INVALID      the specification forbids it; .reason is a short stable reason class
  UNSPECIFIED  the specification is silent (either verdict of an implementation is fine)

Value representation (used by encode and produced by decode):
  basic fixed types  -> int   (BOOLEAN 0/1, DOUBLE as the 64-bit pattern, UNIX_FD index)
  s / o / g          -> bytes
  array              -> list
  struct             -> tuple
  dict entry         -> tuple (k, v) inside a list (array of dict entries)
  variant            -> Variant(sig: bytes, value)
"""
import struct

VALID, INCOMPLETE, INVALID, UNSPECIFIED = "VALID", "INCOMPLETE", "INVALID", "UNSPECIFIED"

MAX_ARRAY = 1 << 26
MAX_MESSAGE = 1 << 27
MAX_NAME = 255

BASIC_FIXED = {  # code -> (size, struct fmt char)
    ord('y'): (1, 'B'), ord('b'): (4, 'I'), ord('n'): (2, 'H'), ord('q'): (2, 'H'),
    ord('i'): (4, 'I'), ord('u'): (4, 'I'), ord('x'): (8, 'Q'), ord('t'): (8, 'Q'),
    ord('d'): (8, 'Q'), ord('h'): (4, 'I'),
}
STRINGLIKE = {ord('s'), ord('o'), ord('g')}
BASIC = set(BASIC_FIXED) | STRINGLIKE

FIELD_TYPES = {1: b'o', 2: b's', 3: b's', 4: b's', 5: b'u', 6: b's', 7: b's', 8: b'g', 9: b'u'}
F_PATH, F_INTERFACE, F_MEMBER, F_ERROR_NAME, F_REPLY_SERIAL, F_DESTINATION, F_SENDER, \
    F_SIGNATURE, F_UNIX_FDS, F_CONTAINER_INSTANCE = range(1, 11)
T_CALL, T_RETURN, T_ERROR, T_SIGNAL = 1, 2, 3, 4
REQUIRED = {T_CALL: (F_PATH, F_MEMBER), T_RETURN: (F_REPLY_SERIAL,),
            T_ERROR: (F_ERROR_NAME, F_REPLY_SERIAL), T_SIGNAL: (F_PATH, F_INTERFACE, F_MEMBER)}

LOCAL_PATH = b"/org/freedesktop/DBus/Local"
LOCAL_IFACE = b"org.freedesktop.DBus.Local"


class Variant(object):
    __slots__ = ("sig", "value")

    def __init__(self, sig, value):
        self.sig = sig
        self.value = value

    def __eq__(self, o):
        return isinstance(o, Variant) and o.sig == self.sig and o.value == self.value

    def __ne__(self, o):
        return not self.__eq__(o)

    def __hash__(self):
        return hash(self.sig)

    def __repr__(self):
        return "Variant(%r, %r)" % (self.sig, self.value)


class Invalid(Exception):
    def __init__(self, reason, unspecified=False):
        Exception.__init__(self, reason)
        self.reason = reason
        self.unspecified = unspecified


class Incomplete(Exception):
    pass


# --------------------------------------------------------------------------- signatures

class T(object):
    """Parsed type: code in b'ybnqiuxtdsoghv' or 'a' (elem) / 'r' (members) / 'e' (key,val)."""
    __slots__ = ("code", "sub", "sig", "align")

    def __init__(self, code, sub, sig):
        self.code = code
        self.sub = sub
        self.sig = sig
        if code in BASIC_FIXED:
            self.align = BASIC_FIXED[code][0]
        elif code in (ord('s'), ord('o'), ord('a')):
            self.align = 4
        elif code in (ord('g'), ord('v')):
            self.align = 1
        else:
            self.align = 8

    def __repr__(self):
        return "T(%r)" % self.sig


_sig_cache = {}


def parse_signature(sig, single=False):
    """Return list of T for a valid signature, raise Invalid(reason) otherwise.

    Invalid.unspecified is set for shapes on which the text is silent (dict-entry braces
    counted towards the 32-parenthesis limit or not)."""
    key = (bytes(sig), single)
    r = _sig_cache.get(key)
    if r is not None:
        if isinstance(r, Invalid):
            raise r
        return r
    try:
        r = _parse_signature(bytes(sig), single)
    except Invalid as e:
        if len(_sig_cache) < 200000:
            _sig_cache[key] = e
        raise
    if len(_sig_cache) < 200000:
        _sig_cache[key] = r
    return r


def _parse_signature(sig, single):
    if len(sig) > 255:
        raise Invalid("signature-too-long")
    state = {"unspec": False}

    def one(pos, adepth, sdepth, bdepth):
        if pos >= len(sig):
            raise Invalid("signature-missing-type")
        c = sig[pos]
        if c in BASIC or c == ord('v'):
            return T(c, None, sig[pos:pos + 1]), pos + 1
        if c == ord('a'):
            if adepth + 1 > 32:
                raise Invalid("signature-array-depth")
            if pos + 1 < len(sig) and sig[pos + 1] == ord('{'):
                # dict entry only allowed here
                if sdepth + bdepth + 1 > 32:
                    state["unspec"] = True
                p = pos + 2
                k, p = one(p, adepth + 1, sdepth, bdepth + 1)
                if k.code not in BASIC:
                    raise Invalid("signature-dict-key-not-basic")
                v, p = one(p, adepth + 1, sdepth, bdepth + 1)
                if p >= len(sig):
                    raise Invalid("signature-dict-unterminated")
                if sig[p] != ord('}'):
                    raise Invalid("signature-dict-arity")
                e = T(ord('e'), (k, v), sig[pos + 1:p + 1])
                return T(ord('a'), e, sig[pos:p + 1]), p + 1
            el, p = one(pos + 1, adepth + 1, sdepth, bdepth)
            return T(ord('a'), el, sig[pos:p]), p
        if c == ord('('):
            if sdepth + 1 > 32:
                raise Invalid("signature-struct-depth")
            if sdepth + bdepth + 1 > 32:
                state["unspec"] = True
            p = pos + 1
            members = []
            while True:
                if p >= len(sig):
                    raise Invalid("signature-struct-unterminated")
                if sig[p] == ord(')'):
                    break
                m, p = one(p, adepth, sdepth + 1, bdepth)
                members.append(m)
            if not members:
                raise Invalid("signature-empty-struct")
            return T(ord('r'), tuple(members), sig[pos:p + 1]), p + 1
        if c == ord('{'):
            raise Invalid("signature-dict-outside-array")
        if c in (ord(')'), ord('}')):
            raise Invalid("signature-unbalanced-close")
        if c in (ord('r'), ord('e')):
            raise Invalid("signature-struct-or-dict-typecode")
        raise Invalid("signature-unknown-typecode")

    out = []
    pos = 0
    while pos < len(sig):
        t, pos = one(pos, 0, 0, 0)
        out.append(t)
    if single and len(out) != 1:
        raise Invalid("signature-not-single")
    if state["unspec"]:
        raise Invalid("signature-brace-depth", unspecified=True)
    return out


def signature_ok(sig, single=False):
    """True / False / None (unspecified)."""
    try:
        parse_signature(sig, single)
        return True
    except Invalid as e:
        return None if e.unspecified else False


# --------------------------------------------------------------------------- names

_ALPHA_ = frozenset(b"ABCDEFGHIJKLMNOPQRSTUVWXYZabcdefghijklmnopqrstuvwxyz_")
_DIGIT = frozenset(b"0123456789")


def _elements_reason(b, sep, allow_hyphen, allow_digit_start):
    """Reason class why the sep-separated elements of b are bad, or None."""
    for el in b.split(sep):
        if not el:
            return "empty-element"
        for i, c in enumerate(el):
            if c in _ALPHA_:
                continue
            if c in _DIGIT:
                if i == 0 and not allow_digit_start:
                    return "element-starts-with-digit"
                continue
            if c == 0x2D and allow_hyphen:
                continue
            return "nul-char" if c == 0 else ("non-ascii-char" if c >= 0x80 else "bad-char")
    return None


def interface_reason(b):
    """None if b is a valid interface name, else a short reason class."""
    if not b:
        return "empty"
    if len(b) > MAX_NAME:
        return "too-long"
    r = _elements_reason(b, b".", False, False)
    if r:
        return r
    if b"." not in b:
        return "no-dot"
    return None


def member_reason(b):
    if not b:
        return "empty"
    if len(b) > MAX_NAME:
        return "too-long"
    if b"." in b:
        return "bad-char"
    return _elements_reason(b, b".", False, False)


def bus_name_reason(b):
    if not b:
        return "empty"
    if len(b) > MAX_NAME:
        return "too-long"
    if b[0:1] == b":":
        rest = b[1:]
        if not rest:
            return "unique-no-elements"
        r = _elements_reason(rest, b".", True, True)
        if r:
            return "unique-" + r
        if b"." not in rest:
            return "unique-no-dot"
        return None
    r = _elements_reason(b, b".", True, False)
    if r:
        return r
    if b"." not in b:
        return "no-dot"
    return None


def path_reason(b):
    if not b:
        return "empty"
    if b[0:1] != b"/":
        return "no-leading-slash"
    if b == b"/":
        return None
    if b.endswith(b"/"):
        return "trailing-slash"
    return _elements_reason(b[1:], b"/", False, True)


def valid_interface(b):
    return interface_reason(b) is None


def valid_error_name(b):
    return interface_reason(b) is None


def valid_member(b):
    return member_reason(b) is None


def valid_bus_name(b):
    return bus_name_reason(b) is None


def valid_unique_name(b):
    return b[0:1] == b":" and bus_name_reason(b) is None


def valid_path(b):
    return path_reason(b) is None


def valid_utf8(b):
    """Strict UTF-8, no NUL (noncharacters allowed, surrogates / overlong / >U+10FFFF not)."""
    if b"\0" in b:
        return False
    try:
        b.decode("utf-8", "strict")
        return True
    except UnicodeDecodeError:
        return False


# --------------------------------------------------------------------------- encoding

class Encoder(object):
    """Marshals values; records 'sites' = (kind, offset, size) of every structural element
    so that mutators can aim at them."""

    def __init__(self, order="l", base=0):
        self.order = order
        self.e = "<" if order == "l" else ">"
        self.buf = bytearray()
        self.base = base
        self.sites = []

    def pos(self):
        return self.base + len(self.buf)

    def pad(self, align):
        n = (-self.pos()) % align
        if n:
            self.sites.append(("pad", self.pos(), n))
            self.buf += b"\0" * n

    def put(self, t, v):
        c = t.code
        if c in BASIC_FIXED:
            size, f = BASIC_FIXED[c]
            self.pad(size)
            self.sites.append(("bool" if c == ord('b') else "fixed", self.pos(), size))
            mask = (1 << (8 * size)) - 1
            self.buf += struct.pack(self.e + f, int(v) & mask)
        elif c in (ord('s'), ord('o')):
            self.pad(4)
            self.sites.append(("strlen", self.pos(), 4))
            self.buf += struct.pack(self.e + "I", len(v))
            self.sites.append(("path" if c == ord('o') else "str", self.pos(), len(v)))
            self.buf += v
            self.sites.append(("nul", self.pos(), 1))
            self.buf += b"\0"
        elif c == ord('g'):
            self.sites.append(("siglen", self.pos(), 1))
            self.buf.append(len(v))
            self.sites.append(("sig", self.pos(), len(v)))
            self.buf += v
            self.sites.append(("nul", self.pos(), 1))
            self.buf += b"\0"
        elif c == ord('a'):
            self.pad(4)
            lenpos = len(self.buf)
            self.sites.append(("arrlen", self.pos(), 4))
            self.buf += b"\0\0\0\0"
            self.pad(t.sub.align)
            start = len(self.buf)
            for item in v:
                self.put(t.sub, item)
            struct.pack_into(self.e + "I", self.buf, lenpos, len(self.buf) - start)
        elif c in (ord('r'), ord('e')):
            self.pad(8)
            if len(v) != len(t.sub):
                raise ValueError("struct arity")
            for m, item in zip(t.sub, v):
                self.put(m, item)
        elif c == ord('v'):
            self.sites.append(("varsiglen", self.pos(), 1))
            self.buf.append(len(v.sig))
            self.sites.append(("varsig", self.pos(), len(v.sig)))
            self.buf += v.sig
            self.sites.append(("nul", self.pos(), 1))
            self.buf += b"\0"
            ts = parse_signature(v.sig, single=True)
            self.put(ts[0], v.value)
        else:
            raise ValueError("bad type code")


def encode_body(sig, values, order="l", base=0):
    ts = parse_signature(sig)
    enc = Encoder(order, base)
    for t, v in zip(ts, values):
        enc.put(t, v)
    return bytes(enc.buf), enc.sites


_HDR_T = None


def _hdr_types():
    global _HDR_T
    if _HDR_T is None:
        _HDR_T = parse_signature(b"a(yv)")[0]
    return _HDR_T


def encode_message(mtype, fields, body_sig=b"", body=(), serial=1, flags=0, order="l",
                   version=1, add_signature=True, want_sites=False):
    """fields: list of (code, Variant) in wire order (SIGNATURE appended automatically when
    add_signature and body_sig non-empty and no field 8 present)."""
    fields = list(fields)
    if add_signature and body_sig and not any(c == F_SIGNATURE for c, _ in fields):
        fields.append((F_SIGNATURE, Variant(b"g", body_sig)))
    e = "<" if order == "l" else ">"
    enc = Encoder(order, 0)
    enc.buf += bytes([ord(order), mtype & 255, flags & 255, version & 255])
    enc.buf += b"\0\0\0\0"
    enc.buf += struct.pack(e + "I", serial & 0xFFFFFFFF)
    enc.sites += [("h_order", 0, 1), ("h_type", 1, 1), ("h_flags", 2, 1), ("h_version", 3, 1),
                  ("h_bodylen", 4, 4), ("h_serial", 8, 4)]
    lenpos = len(enc.buf)
    enc.sites.append(("h_fieldslen", 12, 4))
    enc.buf += b"\0\0\0\0"
    start = len(enc.buf)
    for code, var in fields:
        enc.pad(8)
        enc.sites.append(("fieldcode", enc.pos(), 1))
        enc.buf.append(code)
        enc.put(T(ord('v'), None, b"v"), var)
    struct.pack_into(e + "I", enc.buf, lenpos, len(enc.buf) - start)
    n = (-len(enc.buf)) % 8
    if n:
        enc.sites.append(("h_pad", len(enc.buf), n))
        enc.buf += b"\0" * n
    hlen = len(enc.buf)
    if body_sig:
        ts = parse_signature(body_sig)
        for t, v in zip(ts, body):
            enc.put(t, v)
    struct.pack_into(e + "I", enc.buf, 4, len(enc.buf) - hlen)
    if want_sites:
        return bytes(enc.buf), enc.sites
    return bytes(enc.buf)


# --------------------------------------------------------------------------- decoding

class Decoder(object):
    def __init__(self, data, order, pos, end):
        self.d = data
        self.e = "<" if order == "l" else ">"
        self.pos = pos
        self.end = end
        self.unspec = None

    def pad(self, align):
        n = (-self.pos) % align
        if n:
            if self.pos + n > self.end:
                raise Invalid("padding-past-end")
            if self.d[self.pos:self.pos + n] != b"\0" * n:
                raise Invalid("padding-not-nul")
            self.pos += n

    def u32(self, what):
        self.pad(4)
        if self.pos + 4 > self.end:
            raise Invalid(what + "-truncated")
        v = struct.unpack_from(self.e + "I", self.d, self.pos)[0]
        self.pos += 4
        return v

    def get(self, t, depth):
        """depth = number of enclosing containers of this value."""
        c = t.code
        if c in BASIC_FIXED:
            size, f = BASIC_FIXED[c]
            self.pad(size)
            if self.pos + size > self.end:
                raise Invalid("fixed-truncated")
            v = struct.unpack_from(self.e + f, self.d, self.pos)[0]
            self.pos += size
            if c == ord('b') and v > 1:
                raise Invalid("boolean-not-0-or-1")
            return v
        if c in (ord('s'), ord('o')):
            n = self.u32("string-length")
            if self.pos + n + 1 > self.end or self.pos + n + 1 < self.pos:
                raise Invalid("string-length-past-end")
            s = bytes(self.d[self.pos:self.pos + n])
            if self.d[self.pos + n] != 0:
                raise Invalid("string-missing-nul")
            self.pos += n + 1
            if b"\0" in s:
                raise Invalid("string-embedded-nul")
            if c == ord('o'):
                if not valid_path(s):
                    raise Invalid("bad-object-path:" + path_reason(s))
            elif not valid_utf8(s):
                raise Invalid("bad-utf8")
            return s
        if c == ord('g'):
            return self.sig(False)
        if c == ord('a'):
            if depth + 1 > 64:
                raise Invalid("value-depth")
            n = self.u32("array-length")
            if n > MAX_ARRAY:
                raise Invalid("array-length-over-64MiB")
            self.pad(t.sub.align)
            if self.pos + n > self.end:
                raise Invalid("array-length-past-end")
            stop = self.pos + n
            out = []
            sub = t.sub
            if sub.code in BASIC_FIXED:
                size, f = BASIC_FIXED[sub.code]
                if n % size:
                    raise Invalid("array-length-not-multiple")
                if n:
                    out = list(struct.unpack_from("%s%d%s" % (self.e, n // size, f), self.d, self.pos))
                    if sub.code == ord('b') and any(x > 1 for x in out):
                        raise Invalid("boolean-not-0-or-1")
                self.pos = stop
                return out
            saved_end = self.end
            self.end = stop
            try:
                while self.pos < stop:
                    out.append(self.get(sub, depth + 1))
            finally:
                self.end = saved_end
            if self.pos != stop:
                raise Invalid("array-length-mismatch")
            return out
        if c in (ord('r'), ord('e')):
            if depth + 1 > 64:
                raise Invalid("value-depth")
            self.pad(8)
            return tuple(self.get(m, depth + 1) for m in t.sub)
        if c == ord('v'):
            if depth + 1 > 64:
                raise Invalid("value-depth")
            s = self.sig(True)
            ts = parse_signature(s, single=True)
            return Variant(s, self.get(ts[0], depth + 1))
        raise Invalid("bad-typecode")

    def sig(self, single):
        if self.pos + 1 > self.end:
            raise Invalid("signature-length-truncated")
        n = self.d[self.pos]
        if self.pos + 1 + n + 1 > self.end:
            raise Invalid("signature-past-end")
        s = bytes(self.d[self.pos + 1:self.pos + 1 + n])
        if self.d[self.pos + 1 + n] != 0:
            raise Invalid("signature-missing-nul")
        self.pos += n + 2
        try:
            parse_signature(s, single)
        except Invalid as e:
            if e.unspecified:
                self.unspec = self.unspec or e.reason
            else:
                raise Invalid(("variant-" if single else "") + e.reason)
        return s


class Message(object):
    __slots__ = ("order", "type", "flags", "version", "body_len", "serial", "fields", "body_sig",
                 "body", "length", "header_len")

    def field(self, code, default=None):
        for c, v in self.fields:
            if c == code:
                return v.value
        return default

    def known(self):
        """dict of the first occurrence of each known field code 1..10."""
        out = {}
        for c, v in self.fields:
            if 1 <= c <= 10 and c not in out:
                out[c] = v.value
        return out

    def unknown_fields(self):
        return [(c, v) for c, v in self.fields if c > 10 or c == 0]


class Result(object):
    __slots__ = ("kind", "reason", "need", "msg")

    def __init__(self, kind, reason=None, need=None, msg=None):
        self.kind = kind
        self.reason = reason
        self.need = need
        self.msg = msg

    def __repr__(self):
        return "Result(%s, %r, need=%r)" % (self.kind, self.reason, self.need)


def frame_length(data, array_limit=True):
    """Length of the first frame as announced by its fixed header, or None if < 16 bytes,
    raising Invalid for announced sizes the specification forbids (array_limit=False: only
    the 128 MiB total is enforced, so that the extent of the frame is still known)."""
    if len(data) < 16:
        return None
    if data[0] == ord('l'):
        e = "<"
    elif data[0] == ord('B'):
        e = ">"
    else:
        raise Invalid("bad-endianness-flag")
    body_len, serial, flen = struct.unpack_from(e + "III", data, 4)
    if flen > MAX_ARRAY and array_limit:
        raise Invalid("header-array-over-64MiB")
    hlen = 16 + flen
    hlen += (-hlen) % 8
    total = hlen + body_len
    if total > MAX_MESSAGE:
        raise Invalid("message-over-128MiB")
    return total


def validate(data, nfds=0):
    """Judge the first frame of `data` (trailing bytes beyond it are ignored, see Result.need)."""
    try:
        return _validate(data, nfds)
    except Invalid as e:
        return Result(UNSPECIFIED if e.unspecified else INVALID, e.reason)


def _validate(data, nfds):
    n = len(data)
    if n >= 1 and data[0] not in (ord('l'), ord('B')):
        raise Invalid("bad-endianness-flag")
    if n >= 2 and data[1] == 0:
        raise Invalid("message-type-0")
    if n >= 4 and data[3] != 1:
        raise Invalid("protocol-version")
    if n >= 12:
        e = "<" if data[0] == ord('l') else ">"
        if struct.unpack_from(e + "I", data, 8)[0] == 0:
            raise Invalid("serial-0")
    if n < 16:
        return Result(INCOMPLETE, need=16)
    total = frame_length(data)
    order = chr(data[0])
    e = "<" if order == "l" else ">"
    body_len, serial, flen = struct.unpack_from(e + "III", data, 4)
    hlen = 16 + flen
    hlen += (-hlen) % 8
    if n < hlen:
        return Result(INCOMPLETE, need=total)
    m = Message()
    m.order, m.type, m.flags, m.version = order, data[1], data[2], data[3]
    m.body_len, m.serial, m.length, m.header_len = body_len, serial, total, hlen
    dec = Decoder(data, order, 12, 16 + flen)
    unspec = None
    # header field array: a(yv)
    dec.pos = 16
    fields = []
    end = 16 + flen
    dec.end = end
    while dec.pos < end:
        dec.pad(8)
        if dec.pos >= end:
            # padding with no struct behind it is not "n bytes of elements"
            raise Invalid("header-array-trailing-padding")
        code = data[dec.pos]
        dec.pos += 1
        s = dec.sig(True)
        ts = parse_signature(s, single=True) if signature_ok(s, True) else None
        if ts is None:
            # brace-depth unspecified signature inside a header variant
            raise Invalid("signature-brace-depth", unspecified=True)
        if code == 0:
            raise Invalid("field-code-0")
        if code in FIELD_TYPES and s != FIELD_TYPES[code]:
            raise Invalid("known-field-wrong-type")
        if code == F_CONTAINER_INSTANCE and s != b"o":
            unspec = unspec or "container-instance-type"
        val = dec.get(ts[0], 3)   # array > struct > variant
        fields.append((code, Variant(s, val)))
    if dec.pos != end:
        raise Invalid("header-array-length-mismatch")
    # header padding to 8
    padn = hlen - end
    if data[end:hlen] != b"\0" * padn:
        raise Invalid("header-padding-not-nul")
    m.fields = fields
    seen = {}
    for c, v in fields:
        if c in seen and 1 <= c <= 10:
            unspec = unspec or "duplicate-known-field"
        seen.setdefault(c, v.value)
    # per-field value rules
    if F_INTERFACE in seen:
        if not valid_interface(seen[F_INTERFACE]):
            raise Invalid("bad-interface-name:" + interface_reason(seen[F_INTERFACE]))
        if seen[F_INTERFACE] == LOCAL_IFACE:
            unspec = unspec or "reserved-local-interface"
    if F_MEMBER in seen and not valid_member(seen[F_MEMBER]):
        raise Invalid("bad-member-name:" + member_reason(seen[F_MEMBER]))
    if F_ERROR_NAME in seen and not valid_error_name(seen[F_ERROR_NAME]):
        raise Invalid("bad-error-name:" + interface_reason(seen[F_ERROR_NAME]))
    if F_DESTINATION in seen and not valid_bus_name(seen[F_DESTINATION]):
        raise Invalid("bad-destination-name:" + bus_name_reason(seen[F_DESTINATION]))
    if F_SENDER in seen and not valid_bus_name(seen[F_SENDER]):
        raise Invalid("bad-sender-name:" + bus_name_reason(seen[F_SENDER]))
    if F_PATH in seen and seen[F_PATH] == LOCAL_PATH:
        unspec = unspec or "reserved-local-path"
    if F_REPLY_SERIAL in seen and seen[F_REPLY_SERIAL] == 0:
        unspec = unspec or "reply-serial-0"
    # duplicates: every occurrence of a known field must itself be well-formed (already
    # checked by type); name grammar of later duplicates is not judged (unspecified anyway)
    for req in REQUIRED.get(m.type, ()):
        if req not in seen:
            raise Invalid("missing-required-field")
    body_sig = seen.get(F_SIGNATURE, b"")
    m.body_sig = body_sig
    if not body_sig and body_len:
        raise Invalid("body-without-signature")
    if n < total:
        return Result(INCOMPLETE, need=total)
    fds = seen.get(F_UNIX_FDS, 0)
    if nfds is not None:
        if fds > nfds:
            raise Invalid("unix-fds-more-than-attached")
        if fds < nfds:
            unspec = unspec or "unix-fds-fewer-than-attached"
    ts = parse_signature(body_sig)
    bd = Decoder(data, order, hlen, total)
    body = []
    for t in ts:
        body.append(bd.get(t, 0))
    if bd.pos != total:
        raise Invalid("body-length-mismatch")
    m.body = body
    unspec = unspec or dec.unspec or bd.unspec
    if unspec:
        return Result(UNSPECIFIED, unspec, need=total, msg=m)
    return Result(VALID, need=total, msg=m)


def decode(data, nfds=0):
    r = validate(data, nfds)
    if r.kind not in (VALID, UNSPECIFIED) or r.msg is None:
        raise Invalid(r.reason or r.kind)
    return r.msg


# --------------------------------------------------------------------------- JSON-able dumps

def jval(t, v):
    """Canonical JSON-able form of a value, identical to what harness/hcommon.h prints."""
    c = t.code
    if c in BASIC_FIXED:
        return [chr(c), int(v)]
    if c in STRINGLIKE:
        return [chr(c), bytes(v).hex()]
    if c == ord('a'):
        return ["a", t.sub.sig.decode("latin1"), [jval(t.sub, x) for x in v]]
    if c == ord('r'):
        return ["r", [jval(m, x) for m, x in zip(t.sub, v)]]
    if c == ord('e'):
        return ["e", [jval(m, x) for m, x in zip(t.sub, v)]]
    if c == ord('v'):
        ts = parse_signature(v.sig, single=True)
        return ["v", v.sig.decode("latin1"), jval(ts[0], v.value)]
    raise ValueError(c)


def jbody(sig, values):
    return [jval(t, v) for t, v in zip(parse_signature(sig), values)]
